#!/bin/bash
# Builds the verifier offline from /verif/engine with the pinned toolchain.
set -e
cd "$(dirname "$0")"
. ./env.sh
mkdir -p bin evidence
cp /repo/go.sum engine/go.sum
(cd engine && go build -o ../bin/gocv .)
echo "setup ok"
