#!/usr/bin/env python3
"""Regenerates /verif/MANIFEST.json from specs/properties/*.json and tools/claims.json."""
import json, os, subprocess
V = os.path.dirname(os.path.dirname(os.path.abspath(__file__)))
props = [json.loads(l) for l in open(os.path.join(V, 'properties.jsonl'))]
claims = json.load(open(os.path.join(V, 'tools', 'claims.json')))
hooks = subprocess.run(['git', '-C', '/repo', 'log', '--format=%H %s'], capture_output=True, text=True).stdout.strip().split('\n')
hook_commits = [l.split()[0] for l in hooks if ' verif:' in l or l.split(' ', 1)[1].startswith('verif')]
checks, na = [], []
for p in props:
    pid = p['id']
    c = claims.get(pid, {})
    spec_path = os.path.join(V, 'specs', 'properties', pid + '.json')
    if c.get('claimed') and os.path.exists(spec_path):
        spec = json.load(open(spec_path))
        note = c.get('level_note', '') + ' NOT DECIDED by this check: ' + ' | '.join(spec.get('not_decided', []))
        checks.append({
            'property_id': pid,
            'quick_cmd': './check %s quick' % pid,
            'thorough_cmd': './check %s thorough' % pid,
            'evidence_file': '/verif/evidence/%s.json' % pid,
            'replay_cmd_template': './check --replay {path}',
            'engine': 'gocv',
            'level_claimed': {'category': 'proof', 'text': c['text'], 'design_ref': c.get('design_ref', 'DESIGN.md section 7 ' + pid)},
            'level_note': note,
            'technique': c.get('technique', 'contract-based deductive verification: contracts (//@ requires/ensures/invariant/modifies) on the real Go functions, weakest-precondition VC generation over go/ssa, obligations discharged by z3/cvc5'),
        })
    else:
        na.append({'property_id': pid, 'reason': c.get('reason', 'contracts not completed (effort, not a limit of the technique); see DESIGN.md section 7')})
m = {
    'version': 1,
    'setup_cmd': './setup.sh',
    'hooks': {
        'guard': 'verif',
        'enable': '-tags verif: the only hook is one comment-only file <pkg>/verif_contracts.go per package (contracts read by the verifier, never executed; with the tag off the files are not compiled)',
        'baseline_off_cmd': 'cd /repo && go test -vet=off -count=1 -timeout 25m ./...',
        'source_commits': hook_commits,
        'add_only': True,
    },
    'engines': [{'name': 'gocv', 'path': 'engine', 'serves_properties': [c['property_id'] for c in checks],
                 'kind_free_text': 'self-written deductive verifier for Go: contracts in //@ comments, VC generation over go/ssa of the real code (bit-vector integers, structured-address heap, loop invariants, modular calls, frames), obligations discharged by z3 5.1.0 / z3 4.8.12 / cvc5 1.0.3'}],
    'checks': checks,
    'not_applicable': na,
    'notes': 'One technique family: contract-based deductive verification of the real code. See DESIGN.md. A failed or undischarged obligation is reported as VIOLATION (with no-failing-input-found when the solver gave no replayable model).',
}
json.dump(m, open(os.path.join(V, 'MANIFEST.json'), 'w'), indent=1)
print('claimed:', [c['property_id'] for c in checks])
