#!/bin/bash
# usage: tools/prep_seed.sh <Cxx> — scratch worktree /tmp/seed_<id> of /repo HEAD without the contract files, and /tmp/prop_<id>.txt
id=$1
git -C /repo worktree add --detach /tmp/seed_$id HEAD >/dev/null 2>&1 || exit 1
find /tmp/seed_$id -name verif_contracts.go -delete
git -C /tmp/seed_$id commit -qam "scratch base" 
python3 - "$id" <<'PY'
import json,sys
for l in open('/verif/properties.jsonl'):
    d=json.loads(l)
    if d['id']==sys.argv[1]:
        open('/tmp/prop_%s.txt'%d['id'],'w').write(json.dumps(d,indent=1))
PY
echo /tmp/seed_$id
