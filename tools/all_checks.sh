#!/bin/bash
# usage: tools/all_checks.sh [tier] — every claimed property on the current /repo tree; prints one line per property.
cd /verif
tier=${1:-quick}
rc=0
for id in $(python3 -c "import json;print(' '.join(c['property'] for c in json.load(open('MANIFEST.json'))['checks']))" 2>/dev/null || ls specs/properties | sed 's/.json//'); do
  out=$(./check $id $tier 2>&1); r=$?
  echo "$id exit=$r $(echo "$out" | tail -1)"
  echo "$out" | grep -E "^(VIOLATION|KNOWN-FINDING)" | cut -c1-220
  [ $r -ne 0 ] && rc=1
done
exit $rc
