#!/bin/bash
# usage: tools/try_mutant.sh <patch> <prop> [tier]  — applies a patch to /repo (must be clean), runs the check, reverts.
set -u
if [ -n "$(git -C /repo status --porcelain)" ]; then echo "refusing: /repo has uncommitted changes"; exit 3; fi
git -C /repo apply "$1" || { echo "patch does not apply"; exit 3; }
(cd /verif && ./check "$2" "${3:-quick}" 2>&1 | sed 's/replay=[^ ]* //' | cut -c1-240 | tail -6)
git -C /repo checkout -- .
git -C /repo status --porcelain | head -3
