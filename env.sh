# sourced by every script: pinned offline toolchain
export PATH=/root/go/pkg/mod/golang.org/toolchain@v0.0.1-go1.24.2.linux-amd64/bin:$PATH
export GOTOOLCHAIN=local GOFLAGS=-mod=mod GOPROXY=off GOSUMDB=off CGO_ENABLED=1
