package main

import (
	"encoding/json"
	"fmt"
	"os"
	"path/filepath"
	"sort"
	"strconv"
	"strings"
	"time"

	"golang.org/x/tools/go/ssa"
)

// PropSpec is /verif/specs/properties/<id>.json: what makes up one property.
type PropSpec struct {
	ID             string   `json:"id"`
	Packages       []string `json:"packages"`
	Functions      []string `json:"functions"`       // under contract: verified against their contracts
	Sweep          []string `json:"sweep"`           // safety-only (no-panic) verification, default contract `requires true`
	Lemmas         []string `json:"lemmas"`          // lemma names
	AssumeChecks   map[string]string `json:"assume_checks"` // run-time checks accepted as ENVIRONMENT assumptions (obligation name -> why): not remote input, invariant of a decoder/constructor that is not under contract; listed, never counted as discharged
	AssumeFrames   []string `json:"assume_frames"`   // callees (substring of the key) assumed not to write memory that existed before the call (environment assumption of THIS property, reported)
	IgnoreKinds    []string `json:"ignore_kinds"`    // obligation kinds that are not part of THIS property (e.g. run-time checks, which belong to C01); dropped, counted separately
	Exclude        []string `json:"exclude"`         // function literals of listed functions that are NOT verified (named in not_decided)
	MinObligations int      `json:"min_obligations"` // vacuity guard: the run must generate at least this many
	NotDecided     []string `json:"not_decided"`
	Assumptions    []string `json:"assumptions"`
	Clauses        map[string]string `json:"clauses"` // contract clause -> sentence of the property statement it was taken from
	BoundedStandins []string `json:"bounded_standins"`
}

type knownFindings struct {
	Findings []struct {
		Property   string `json:"property"`
		Obligation string `json:"obligation"`
		What       string `json:"what"`
	} `json:"findings"`
	Fixed []struct {
		Property string `json:"property"`
		Commit   string `json:"commit"`
		What     string `json:"what"`
	} `json:"fixed"`
}

func cmdCheck(args []string) {
	if len(args) < 1 {
		usage()
	}
	id := args[0]
	tier := "quick"
	if len(args) > 1 {
		tier = args[1]
	}
	if t := os.Getenv("VERIF_TIER"); t != "" && len(args) < 2 {
		tier = t
	}
	seed := 0
	if s := os.Getenv("VERIF_SEED"); s != "" {
		seed, _ = strconv.Atoi(s)
	}
	start := time.Now()
	vd := verifDir()
	var spec PropSpec
	data, err := os.ReadFile(filepath.Join(vd, "specs", "properties", id+".json"))
	if err != nil {
		fmt.Fprintln(os.Stderr, "tooling error:", err)
		os.Exit(2)
	}
	if err := json.Unmarshal(data, &spec); err != nil {
		fmt.Fprintln(os.Stderr, "tooling error:", err)
		os.Exit(2)
	}
	var kf knownFindings
	if data, err := os.ReadFile(filepath.Join(vd, "known_findings.json")); err == nil {
		if err := json.Unmarshal(data, &kf); err != nil {
			fmt.Fprintln(os.Stderr, "tooling error: known_findings.json:", err)
			os.Exit(2)
		}
	}
	P, err := loadProgram(spec.Packages)
	if err != nil {
		fmt.Fprintln(os.Stderr, "tooling error: the repository does not load:", err)
		os.Exit(2)
	}
	C, err := loadAllContracts(P, filepath.Join(vd, "specs"))
	if err != nil {
		fmt.Fprintln(os.Stderr, "tooling error: contracts do not parse:", err)
		os.Exit(2)
	}
	V := newVerifier(P, C)
	var structure []string
	var fns []*ssa.Function
	sweepSet := map[string]bool{}
	for _, k := range spec.Functions {
		f := P.lookupFunc(k)
		if f == nil {
			structure = append(structure, fmt.Sprintf("structure:%s: function under contract no longer exists", k))
			continue
		}
		fns = append(fns, f)
	}
	for _, k := range spec.Sweep {
		f := P.lookupFunc(k)
		if f == nil {
			structure = append(structure, fmt.Sprintf("structure:%s: swept function no longer exists", k))
			continue
		}
		sweepSet[k] = true
		fns = append(fns, f)
	}
	// function literals of listed functions are verified with them
	excluded := map[string]bool{}
	for _, k := range spec.Exclude {
		excluded[k] = true
	}
	seenFn := map[*ssa.Function]bool{}
	for _, f := range fns {
		seenFn[f] = true
	}
	var addAnon func(f *ssa.Function, swept bool)
	addAnon = func(f *ssa.Function, swept bool) {
		for _, a := range f.AnonFuncs {
			if excluded[funcKey(a)] {
				continue
			}
			if !seenFn[a] {
				seenFn[a] = true
				k := funcKey(a)
				if C.Funcs[k] == nil || swept {
					if C.Funcs[k] == nil {
						sweepSet[k] = true
					}
				}
				fns = append(fns, a)
			}
			addAnon(a, swept)
		}
	}
	for _, f := range append([]*ssa.Function{}, fns...) {
		addAnon(f, sweepSet[funcKey(f)])
	}
	V.SweepSet = sweepSet
	V.PropID = spec.ID
	V.AssumeFrames = spec.AssumeFrames
	V.IgnoreKinds = map[string]bool{}
	for _, k := range spec.IgnoreKinds {
		V.IgnoreKinds[k] = true
	}
	var lemmas []*Lemma
	for _, ln := range spec.Lemmas {
		var found *Lemma
		for _, l := range C.Lemmas {
			if l.Name == ln {
				found = l
			}
		}
		if found == nil {
			structure = append(structure, fmt.Sprintf("structure:lemma %s: not found", ln))
			continue
		}
		lemmas = append(lemmas, found)
	}
	tmo := 20 * time.Second
	if tier == "thorough" {
		tmo = 60 * time.Second
	}
	od := vd
	if o := os.Getenv("GOCV_OUT"); o != "" {
		od = o
	}
	outDir := filepath.Join(od, "out", id)
	os.RemoveAll(outDir)
	os.MkdirAll(outDir, 0o755)
	res := V.verifyFunctions(fns, lemmas, solveOpts{timeout: tmo, seed: seed, outDir: outDir, workers: 10})
	structure = append(structure, res.Structure...)
	structure = append(structure, V.axiomErrs...)

	known := map[string]string{}
	for _, f := range kf.Findings {
		if f.Property == id {
			known[f.Obligation] = f.What
		}
	}
	replayDir := filepath.Join(od, "out", "replay", id)
	os.RemoveAll(replayDir)
	os.MkdirAll(replayDir, 0o755)
	violations := 0
	knownHit := 0
	assumedHit := 0
	var assumedList []string
	var lines []string
	sortObls(res.Obls)
	bySolver := map[string]int{}
	var fragile []string
	for _, o := range res.Obls {
		if o.Result == "unsat" {
			bySolver[o.Solver]++
			if o.Ms > 5000 {
				fragile = append(fragile, fmt.Sprintf("%s (%d ms)", o.Name, o.Ms))
			}
			continue
		}
		if why, ok := spec.AssumeChecks[o.Name]; ok {
			o.Known = true
			assumedHit++
			assumedList = append(assumedList, o.Name+": "+why)
			continue
		}
		if what, ok := known[o.Name]; ok {
			o.Known = true
			knownHit++
			lines = append(lines, fmt.Sprintf("KNOWN-FINDING: property=%s %s [%s]", id, what, o.Name))
			continue
		}
		violations++
		rp := writeReplay(replayDir, id, o, V)
		suffix := ""
		if !o.Replayed {
			suffix = " no-failing-input-found"
		}
		lines = append(lines, fmt.Sprintf("VIOLATION property=%s replay=%s obligation=%s result=%s%s", id, rp, o.Name, o.Result, suffix))
	}
	for i, s := range structure {
		violations++
		rp := filepath.Join(replayDir, fmt.Sprintf("structure_%d.json", i))
		writeJSON(rp, map[string]interface{}{"property": id, "obligation": s, "kind": "structure", "explanation": "the proof no longer covers the code that runs (DESIGN section 6)"})
		lines = append(lines, fmt.Sprintf("VIOLATION property=%s replay=%s obligation=%q no-failing-input-found", id, rp, s))
	}
	if len(res.Obls) < spec.MinObligations {
		violations++
		rp := filepath.Join(replayDir, "vacuity.json")
		writeJSON(rp, map[string]interface{}{"property": id, "obligation": "vacuity:obligation-count", "generated": len(res.Obls), "required": spec.MinObligations})
		lines = append(lines, fmt.Sprintf("VIOLATION property=%s replay=%s obligation=vacuity:obligation-count(%d<%d) no-failing-input-found", id, rp, len(res.Obls), spec.MinObligations))
	}
	for _, l := range lines {
		fmt.Println(l)
	}
	// evidence
	var samples []map[string]interface{}
	for i, o := range res.Obls {
		if i < 400 {
			samples = append(samples, map[string]interface{}{"obligation": o.Name, "kind": o.Kind, "result": o.Result, "solver": o.Solver, "ms": o.Ms, "at": o.Pos, "known_finding": o.Known})
		}
	}
	var trusted []string
	for k := range V.ExternU {
		trusted = append(trusted, "extern contract (assumed): "+k)
	}
	for k := range V.Assumed {
		trusted = append(trusted, "callee without contract, assumed not to panic, havocs all memory: "+k)
	}
	verifiedSet := map[string]bool{}
	for _, f := range spec.Functions {
		verifiedSet[f] = true
	}
	for _, f := range spec.Sweep {
		verifiedSet[f] = true
	}
	for k := range V.ContractUsed {
		if !verifiedSet[k] {
			trusted = append(trusted, "contract of a repository or dependency function applied at a call site but not verified by THIS check (verified under another property, or assumed): "+k)
		}
	}
	for k := range V.ForeignClauses {
		trusted = append(trusted, "clauses of another property's contract on a function this check also verifies: used (as postconditions at call sites, as loop invariants), proved by that property's check, not by this one: "+k)
	}
	for k := range V.FrameAssumed {
		trusted = append(trusted, "frame assumed (assume_frames): the callee writes no memory that existed before the call: "+k)
	}
	for k := range V.GlobalsUsed {
		trusted = append(trusted, "ground fact about a package-level variable (assumed): "+k)
	}
	for k := range V.TypeInvUsed {
		trusted = append(trusted, "object invariant assumed for values reaching verified code (fields checked immutable outside the declared constructors; establishment by the constructor not verified): "+k)
	}
	for _, a := range V.axiomNames {
		trusted = append(trusted, "definitional axiom of a spec function: "+a)
	}
	sort.Strings(trusted)
	trusted = append(trusted,
		"model: integers are bit-vectors of their real width (amd64: int = 64 bits); the integer rendering used by some solver runs keeps wrap-around exact via mod 2^w and abstracts non-linear bit operations as uninterpreted functions (sound for unsat)",
		"model: Go memory safety (slices well formed, len <= cap <= 2^40 elements, references point to allocated objects, interior pointers nest at most 3 levels)",
		"model: writes into the spare capacity of a caller's slice by append count as writes to that slice's backing array",
		"tool: go/ssa + go/types front end, the VC generator in /verif/engine, z3 4.8.12 / z3 5.1.0 / cvc5 1.0.3",
		"sequential reasoning: one goroutine; no interleavings are explored")
	trusted = append(trusted, spec.Assumptions...)
	for _, a := range assumedList {
		trusted = append(trusted, "run-time check assumed to pass (environment invariant not under contract): "+a)
	}
	coversSat, coversOther := 0, 0
	for _, c := range res.Covers {
		if c.Result == "sat" {
			coversSat++
		} else {
			coversOther++
		}
	}
	var fl []string
	for _, f := range fns {
		fl = append(fl, funcKey(f))
	}
	discharged := res.Discharged
	ev := map[string]interface{}{
		"property_id": id,
		"tier":        tier,
		"seed":        seed,
		"level":       "proof",
		"wall_s":      time.Since(start).Seconds(),
		"violations":  violations,
		"assumptions": trusted,
		"coverage": map[string]interface{}{
			"obligations":                len(res.Obls) - knownHit - assumedHit,
			"environment_checks_assumed": assumedList,
			"obligations_generated":      len(res.Obls),
			"discharged":                 discharged,
			"known_findings":             knownHit,
			"obligations_of_other_properties_dropped": res.Ignored,
			"known_findings_note":        "obligations that fail because of a defect listed in /verif/known_findings.json are neither claimed nor counted as discharged; obligations = generated - known_findings",
			"checker_cmd":                fmt.Sprintf("/verif/check %s %s  (gocv: VC generation over go/ssa of /repo's working tree; solvers z3-new 5.1.0, z3 4.8.12, cvc5 1.0.3; per-configuration timeout %v)", id, tier, tmo),
			"trusted_base":               trusted,
			"functions_under_contract":   spec.Functions,
			"functions_swept_for_safety": spec.Sweep,
			"lemmas":                     spec.Lemmas,
			"by_solver":                  bySolver,
			"solver_time_s":              res.SolverTime.Seconds(),
			"fragile_over_5s":            fragile,
			"covers_reachable":           coversSat,
			"covers_inconclusive":        coversOther,
			"returns_dead_under_contracts": res.DeadReturns,
			"structure_errors":           structure,
			"not_decided":                spec.NotDecided,
			"bounded_standins":           spec.BoundedStandins,
			"clause_sources":             spec.Clauses,
			"samples":                    samples,
		},
	}
	os.MkdirAll(filepath.Join(od, "evidence"), 0o755)
	writeJSON(filepath.Join(od, "evidence", id+".json"), ev)
	fmt.Printf("property=%s tier=%s functions=%d obligations=%d discharged=%d known-findings=%d environment-assumed=%d violations=%d covers=%d/%d wall=%.1fs\n",
		id, tier, len(fns), len(res.Obls), discharged, knownHit, assumedHit, violations, coversSat, coversSat+coversOther, time.Since(start).Seconds())
	if violations > 0 {
		os.Exit(1)
	}
}

func writeJSON(path string, v interface{}) {
	data, _ := json.MarshalIndent(v, "", " ")
	os.WriteFile(path, data, 0o644)
}

// writeReplay writes the replay file of a failed obligation: the obligation, the
// verifier's output and (when the solver gave one) the model of the function's inputs.
func writeReplay(dir, id string, o *Obligation, V *Verifier) string {
	name := oblFileRe.ReplaceAllString(o.Name, "_")
	if len(name) > 150 {
		name = name[len(name)-150:]
	}
	path := filepath.Join(dir, name+".json")
	rec := map[string]interface{}{
		"property":   id,
		"obligation": o.Name,
		"kind":       o.Kind,
		"function":   o.Func,
		"at":         o.Pos,
		"source":     o.Src,
		"result":     o.Result,
		"solver":     o.Solver,
		"output":     truncate(o.Output, 20000),
	}
	if o.Result == "sat" {
		rec["model_inputs"] = modelText(o.Output)
		if rt := V.tryReplay(o, rec); rt != "" {
			rec["replay_test"] = rt
		}
	} else {
		rec["explanation"] = "no model: the obligation was not discharged by any solver configuration within the time limit (undecided obligations that discharge on the unchanged tree are reported as violations)"
	}
	writeJSON(path, rec)
	return path
}

func truncate(s string, n int) string {
	if len(s) > n {
		return s[:n] + "…"
	}
	return s
}

func modelText(out string) string {
	parts := strings.SplitN(out, "\n", 2)
	if len(parts) == 2 {
		return truncate(parts[1], 8000)
	}
	return ""
}
