package main

import (
	"fmt"
	"go/types"
	"sort"
	"strings"
)

// ---------------------------------------------------------------------------
// Sorts: how Go types are represented in SMT (DESIGN §3.3, §3.4).
//
//   integers          (_ BitVec w)    real width; int/uint/uintptr = 64 (amd64)
//   bool              Bool
//   float64/32        (_ BitVec 64/32) with uninterpreted operations
//   pointer, map, chan, func, unsafe.Pointer   Ref
//   slice             Slice = mkslice(base Ref, off BV64, len BV64, cap BV64)
//   string            Str (uninterpreted) with strlen
//   interface         Iface = mkiface(tag Int, val Ref)   nil = mkiface(0,null)
//   [N]byte, N<=64    (_ BitVec 8N)   byte 0 most significant
//   other arrays      (Array (_ BitVec 64) elem)
//   struct            one datatype per struct type
//   tuple             never a value; split per component
// ---------------------------------------------------------------------------

const preamble = `(set-logic ALL)
(declare-datatypes ((Ref 0)) (((null) (obj (obj_n Int)) (fld (fld_b Ref) (fld_k Int)) (idx (idx_b Ref) (idx_i (_ BitVec 64))))))
(declare-datatypes ((Slice 0)) (((mkslice (s_base Ref) (s_off (_ BitVec 64)) (s_len (_ BitVec 64)) (s_cap (_ BitVec 64))))))
(declare-datatypes ((Iface 0)) (((mkiface (i_tag Int) (i_val Ref)))))
(declare-sort Str 0)
(declare-fun strlen (Str) (_ BitVec 64))
(define-fun rstep ((r Ref)) Ref (ite ((_ is fld) r) (fld_b r) (ite ((_ is idx) r) (idx_b r) r)))
(define-fun root ((r Ref)) Ref (rstep (rstep (rstep (rstep (rstep (rstep (rstep (rstep (rstep r))))))))))
(define-fun ref_wf ((r Ref)) Bool (or ((_ is obj) (rstep (rstep (rstep r)))) ((_ is null) (rstep (rstep (rstep r))))))
(define-fun under ((a Ref) (r Ref)) Bool (or (= r a) (= (rstep r) a) (= (rstep (rstep r)) a) (= (rstep (rstep (rstep r))) a) (= (rstep (rstep (rstep (rstep r)))) a)))
(define-fun rootn ((r Ref)) Int (ite ((_ is obj) (root r)) (obj_n (root r)) (- 1)))
(define-fun slice_wf ((s Slice)) Bool (and (ref_wf (s_base s)) (bvule (s_len s) (s_cap s)) (bvule (s_cap s) #x0000010000000000) (bvule (s_off s) #x0000010000000000) (=> (= (s_base s) null) (= (s_cap s) #x0000000000000000))))
(define-fun nil_slice () Slice (mkslice null #x0000000000000000 #x0000000000000000 #x0000000000000000))
(define-fun nil_iface () Iface (mkiface 0 null))
(define-fun in_slice ((a Ref) (s Slice)) Bool (and ((_ is idx) a) (= (idx_b a) (s_base s)) (bvule (s_off s) (idx_i a)) (bvult (idx_i a) (bvadd (s_off s) (s_len s)))))
`

type sortKind int

const (
	skBV sortKind = iota
	skBool
	skRef
	skSlice
	skStr
	skIface
	skStruct
	skArray // SMT array BV64 -> elem
	skTuple
)

type Sort struct {
	kind   sortKind
	width  int    // skBV
	name   string // SMT sort text
	elem   *Sort  // skArray
	fields []*Sort
	signed bool // informational only (from the Go type)
}

func (s *Sort) String() string { return s.name }

// heapName is the name of the heap array that holds cells of this sort.
func (s *Sort) heapKey() string {
	switch s.kind {
	case skBV:
		return fmt.Sprintf("bv%d", s.width)
	case skBool:
		return "bool"
	case skRef:
		return "ref"
	case skSlice:
		return "slice"
	case skStr:
		return "str"
	case skIface:
		return "iface"
	}
	return ""
}

func bvSort(w int) *Sort { return &Sort{kind: skBV, width: w, name: fmt.Sprintf("(_ BitVec %d)", w)} }

var (
	sortBool  = &Sort{kind: skBool, name: "Bool"}
	sortRef   = &Sort{kind: skRef, name: "Ref"}
	sortSlice = &Sort{kind: skSlice, name: "Slice"}
	sortStr   = &Sort{kind: skStr, name: "Str"}
	sortIface = &Sort{kind: skIface, name: "Iface"}
	sortBV64  = bvSort(64)
	sortBV8   = bvSort(8)
)

// sortTable creates struct datatypes on demand and remembers their declarations.
type sortTable struct {
	structs map[string]*Sort // types.Type string -> sort
	decls   []string
	typeIDs map[string]int // dynamic type tags for interfaces
	sizes   types.Sizes
}

func newSortTable() *sortTable {
	return &sortTable{structs: map[string]*Sort{}, typeIDs: map[string]int{}, sizes: types.SizesFor("gc", "amd64")}
}

func (st *sortTable) typeID(t types.Type) int {
	k := t.String()
	if id, ok := st.typeIDs[k]; ok {
		return id
	}
	id := len(st.typeIDs) + 1
	st.typeIDs[k] = id
	return id
}

func isByteArrayBV(t types.Type) (int, bool) {
	if a, ok := t.Underlying().(*types.Array); ok {
		if b, ok := a.Elem().Underlying().(*types.Basic); ok && (b.Kind() == types.Uint8 || b.Kind() == types.Int8) && a.Len() <= 64 && a.Len() >= 1 {
			return int(a.Len()), true
		}
	}
	return 0, false
}

func (st *sortTable) sortOf(t types.Type) *Sort {
	switch u := t.Underlying().(type) {
	case *types.Basic:
		switch {
		case u.Info()&types.IsBoolean != 0:
			return sortBool
		case u.Info()&types.IsInteger != 0:
			w := int(st.sizes.Sizeof(u)) * 8
			if u.Kind() == types.UntypedInt || u.Kind() == types.UntypedRune {
				w = 64
			}
			s := bvSort(w)
			s.signed = u.Info()&types.IsUnsigned == 0
			return s
		case u.Info()&types.IsFloat != 0:
			if u.Kind() == types.Float32 {
				return bvSort(32)
			}
			return bvSort(64)
		case u.Info()&types.IsString != 0:
			return sortStr
		case u.Kind() == types.UnsafePointer:
			return sortRef
		case u.Kind() == types.UntypedNil:
			return sortRef
		case u.Info()&types.IsComplex != 0:
			return bvSort(128)
		}
	case *types.Pointer, *types.Map, *types.Chan, *types.Signature:
		return sortRef
	case *types.Slice:
		return sortSlice
	case *types.Interface:
		return sortIface
	case *types.Array:
		if n, ok := isByteArrayBV(t); ok {
			return bvSort(8 * n)
		}
		if u.Len() == 0 {
			return bvSort(1)
		}
		e := st.sortOf(u.Elem())
		return &Sort{kind: skArray, elem: e, name: fmt.Sprintf("(Array (_ BitVec 64) %s)", e.name)}
	case *types.Struct:
		key := types.TypeString(t, nil)
		if _, isNamed := t.(*types.Named); !isNamed {
			key = "anon:" + u.String()
		}
		if s, ok := st.structs[key]; ok {
			return s
		}
		name := fmt.Sprintf("S%d_%s", len(st.structs), sanitize(shortTypeName(t)))
		s := &Sort{kind: skStruct, name: name}
		st.structs[key] = s
		var fs []string
		for i := 0; i < u.NumFields(); i++ {
			fsrt := st.sortOf(u.Field(i).Type())
			s.fields = append(s.fields, fsrt)
			fs = append(fs, fmt.Sprintf("(%s_f%d %s)", name, i, fsrt.name))
		}
		if len(fs) == 0 {
			fs = append(fs, fmt.Sprintf("(%s_dummy Bool)", name))
		}
		st.decls = append(st.decls, fmt.Sprintf("(declare-datatypes ((%s 0)) (((mk_%s %s))))", name, name, strings.Join(fs, " ")))
		return s
	case *types.Tuple:
		s := &Sort{kind: skTuple, name: "TUPLE"}
		for i := 0; i < u.Len(); i++ {
			s.fields = append(s.fields, st.sortOf(u.At(i).Type()))
		}
		return s
	case *types.TypeParam:
		return sortRef
	}
	panic(fmt.Sprintf("sortOf: unsupported type %s (%T)", t, t.Underlying()))
}

func shortTypeName(t types.Type) string {
	s := types.TypeString(t, func(p *types.Package) string { return p.Name() })
	if len(s) > 40 {
		s = s[:40]
	}
	return s
}

func sanitize(s string) string {
	var b strings.Builder
	for _, r := range s {
		if r >= 'a' && r <= 'z' || r >= 'A' && r <= 'Z' || r >= '0' && r <= '9' || r == '_' {
			b.WriteRune(r)
		} else {
			b.WriteByte('_')
		}
	}
	return b.String()
}

func isSigned(t types.Type) bool {
	if b, ok := t.Underlying().(*types.Basic); ok {
		return b.Info()&types.IsInteger != 0 && b.Info()&types.IsUnsigned == 0
	}
	return false
}

func isInteger(t types.Type) bool {
	if b, ok := t.Underlying().(*types.Basic); ok {
		return b.Info()&types.IsInteger != 0
	}
	return false
}

func isFloat(t types.Type) bool {
	if b, ok := t.Underlying().(*types.Basic); ok {
		return b.Info()&types.IsFloat != 0
	}
	return false
}

func isString(t types.Type) bool {
	if b, ok := t.Underlying().(*types.Basic); ok {
		return b.Info()&types.IsString != 0
	}
	return false
}

// ---------------------------------------------------------------------------
// term helpers
// ---------------------------------------------------------------------------

func bvLit(w int, v uint64) string {
	if w%4 == 0 && w <= 64 {
		return fmt.Sprintf("#x%0*x", w/4, v&mask(w))
	}
	if w <= 64 {
		return fmt.Sprintf("(_ bv%d %d)", v&mask(w), w)
	}
	return fmt.Sprintf("(_ bv%d %d)", v, w)
}

func mask(w int) uint64 {
	if w >= 64 {
		return ^uint64(0)
	}
	return (uint64(1) << uint(w)) - 1
}

func and(xs ...string) string {
	var ys []string
	for _, x := range xs {
		if x == "true" || x == "" {
			continue
		}
		if x == "false" {
			return "false"
		}
		ys = append(ys, x)
	}
	switch len(ys) {
	case 0:
		return "true"
	case 1:
		return ys[0]
	}
	return "(and " + strings.Join(ys, " ") + ")"
}

func or(xs ...string) string {
	var ys []string
	for _, x := range xs {
		if x == "false" || x == "" {
			continue
		}
		if x == "true" {
			return "true"
		}
		ys = append(ys, x)
	}
	switch len(ys) {
	case 0:
		return "false"
	case 1:
		return ys[0]
	}
	return "(or " + strings.Join(ys, " ") + ")"
}

func not(x string) string {
	switch x {
	case "true":
		return "false"
	case "false":
		return "true"
	}
	if strings.HasPrefix(x, "(not ") && balanced(x[5:len(x)-1]) {
		return x[5 : len(x)-1]
	}
	return "(not " + x + ")"
}

func balanced(s string) bool {
	d := 0
	for _, c := range s {
		if c == '(' {
			d++
		} else if c == ')' {
			d--
			if d < 0 {
				return false
			}
		}
	}
	return d == 0
}

func implies(a, b string) string {
	if a == "true" {
		return b
	}
	if b == "true" || a == "false" {
		return "true"
	}
	return "(=> " + a + " " + b + ")"
}

func ite(c, a, b string) string {
	if c == "true" {
		return a
	}
	if c == "false" {
		return b
	}
	if a == b {
		return a
	}
	return "(ite " + c + " " + a + " " + b + ")"
}

func eq(a, b string) string {
	if a == b {
		return "true"
	}
	return "(= " + a + " " + b + ")"
}

// sliceDefs maps names of slice values defined by the current function encoding to their
// components, so that selectors of known slices fold at generation time (used only
// during the single-threaded encoding phase).
var sliceDefs = map[string][4]string{}

func app(f string, args ...string) string {
	if len(args) == 1 {
		idx := -1
		switch f {
		case "s_base":
			idx = 0
		case "s_off":
			idx = 1
		case "s_len":
			idx = 2
		case "s_cap":
			idx = 3
		}
		if idx >= 0 {
			if c, ok := sliceDefs[args[0]]; ok {
				return c[idx]
			}
			if strings.HasPrefix(args[0], "(mkslice ") {
				if c, ok := splitMkslice(args[0]); ok {
					return c[idx]
				}
			}
		}
	}
	if len(args) == 2 && (f == "bvsub" || f == "bvadd") {
		if a, wa, ok1 := litValue(args[0]); ok1 {
			if b, _, ok2 := litValue(args[1]); ok2 && wa <= 64 {
				var r uint64
				if f == "bvadd" {
					r = a.Uint64() + b.Uint64()
				} else {
					r = a.Uint64() - b.Uint64()
				}
				return bvLit(wa, r)
			}
		}
		if f == "bvsub" && isZeroBV(args[1]) {
			return args[0]
		}
	}
	return "(" + f + " " + strings.Join(args, " ") + ")"
}

func splitMkslice(t string) ([4]string, bool) {
	var out [4]string
	fs, err := parseSexps(t)
	if err != nil || len(fs) != 1 || fs[0].head() != "mkslice" || len(fs[0].list) != 5 {
		return out, false
	}
	for i := 0; i < 4; i++ {
		out[i] = fs[0].list[i+1].String()
	}
	return out, true
}

// bvadd with constant folding of zero
func bvadd(a, b string) string {
	if isZeroBV(a) {
		return b
	}
	if isZeroBV(b) {
		return a
	}
	return app("bvadd", a, b)
}

func isZeroBV(a string) bool {
	if strings.HasPrefix(a, "#x") {
		return strings.Trim(a[2:], "0") == ""
	}
	return false
}

func sortedKeys[V any](m map[string]V) []string {
	var ks []string
	for k := range m {
		ks = append(ks, k)
	}
	sort.Strings(ks)
	return ks
}

// zeroValue returns the SMT term of the zero value of a sort.
func (st *sortTable) zeroValue(s *Sort) string {
	switch s.kind {
	case skBV:
		return bvLit(s.width, 0)
	case skBool:
		return "false"
	case skRef:
		return "null"
	case skSlice:
		return "nil_slice"
	case skIface:
		return "nil_iface"
	case skStr:
		return "str_empty"
	case skStruct:
		if len(s.fields) == 0 {
			return "(mk_" + s.name + " false)"
		}
		var fs []string
		for _, f := range s.fields {
			fs = append(fs, st.zeroValue(f))
		}
		return "(mk_" + s.name + " " + strings.Join(fs, " ") + ")"
	case skArray:
		z := st.zeroValue(s.elem)
		z = strings.ReplaceAll(z, "nil_slice", "(mkslice null #x0000000000000000 #x0000000000000000 #x0000000000000000)")
		z = strings.ReplaceAll(z, "nil_iface", "(mkiface 0 null)")
		return fmt.Sprintf("((as const %s) %s)", s.name, z)
	}
	panic("zeroValue: " + s.name)
}
