package main

import (
	"fmt"
	"math/big"
	"strings"
)

// ---------------------------------------------------------------------------
// Integer rendering of an obligation (text level).
//
// Bit-blasting 64-bit linear arithmetic with inequalities is slow (a five-line index
// calculation takes z3 10-40 s). This pass renders the *same* query over mathematical
// integers: a bit-vector of width w becomes an Int in [0, 2^w), `bvadd`/`bvsub`/`bvmul`/
// `bvneg` become the Int operation followed by `mod 2^w`, comparisons, extensions,
// extraction and concatenation are exact, and the bit operations that have no linear
// counterpart (and/or/xor/not, shifts by a non-constant amount, signed division) become
// uninterpreted functions.
//
// Soundness for proving: every model of the bit-vector query induces a model of the
// integer query (values -> their unsigned integers, the uninterpreted functions -> the
// real bit operations), so "unsat" here implies "unsat" there. The converse does not
// hold (abstracted operations, unconstrained array cells), so "sat" is ignored.
// Machine arithmetic is therefore still exact: wrap-around is modelled by `mod`.
// ---------------------------------------------------------------------------

type irSig struct {
	args []*sx
	ret  *sx
}

type intRenderer struct {
	consts   map[string]*sx // symbol -> sort
	funs     map[string]irSig
	uf       map[string]string // uninterpreted bit-op declarations
	rangeFor map[string]int    // closed terms needing a range fact -> width
	order    []string
	err      error
	isDefined map[string]bool
}

func bvWidth(s *sx) int {
	if s != nil && s.list != nil && len(s.list) == 3 && s.list[0].atom == "_" && s.list[1].atom == "BitVec" {
		var w int
		fmt.Sscanf(s.list[2].atom, "%d", &w)
		return w
	}
	return 0
}

func pow2(w int) string { return new(big.Int).Lsh(big.NewInt(1), uint(w)).String() }

func (r *intRenderer) trSort(s *sx) *sx {
	if bvWidth(s) > 0 {
		return atom("Int")
	}
	if s.list == nil {
		return s
	}
	out := &sx{list: make([]*sx, len(s.list))}
	for i, c := range s.list {
		out.list[i] = r.trSort(c)
	}
	return out
}

func litValue(a string) (*big.Int, int, bool) {
	if strings.HasPrefix(a, "#x") {
		v, ok := new(big.Int).SetString(a[2:], 16)
		return v, 4 * (len(a) - 2), ok
	}
	if strings.HasPrefix(a, "#b") {
		v, ok := new(big.Int).SetString(a[2:], 2)
		return v, len(a) - 2, ok
	}
	return nil, 0, false
}

type irEnv map[string]*sx

func (e irEnv) with(name string, s *sx) irEnv {
	n := irEnv{}
	for k, v := range e {
		n[k] = v
	}
	n[name] = s
	return n
}

var sortBool_ = atom("Bool")
var sortInt_ = atom("Int")

func bvSortSx(w int) *sx { return lst(atom("_"), atom("BitVec"), atom(fmt.Sprint(w))) }

// tr translates a term and returns its translation and its ORIGINAL sort.
func (r *intRenderer) tr(t *sx, env irEnv) (*sx, *sx) {
	if t.list == nil {
		a := t.atom
		if v, w, ok := litValue(a); ok {
			return atom(v.String()), bvSortSx(w)
		}
		if a == "true" || a == "false" {
			return t, sortBool_
		}
		if s, ok := env[a]; ok {
			return t, s
		}
		if s, ok := r.consts[a]; ok {
			return t, s
		}
		if _, err := fmt.Sscanf(a, "%d", new(int)); err == nil {
			return t, sortInt_
		}
		if sig, ok := r.funs[a]; ok && len(sig.args) == 0 {
			return t, sig.ret
		}
		r.fail("unknown symbol %s", a)
		return t, sortInt_
	}
	if len(t.list) == 0 {
		return t, sortBool_
	}
	hd := t.list[0]
	// indexed heads
	if hd.list != nil {
		if len(hd.list) >= 2 && hd.list[0].atom == "_" {
			switch hd.list[1].atom {
			case "extract":
				var hi, lo int
				fmt.Sscanf(hd.list[2].atom, "%d", &hi)
				fmt.Sscanf(hd.list[3].atom, "%d", &lo)
				x, _ := r.tr(t.list[1], env)
				w := hi - lo + 1
				res := x
				if lo > 0 {
					res = lst(atom("div"), res, atom(pow2(lo)))
				}
				return lst(atom("mod"), res, atom(pow2(w))), bvSortSx(w)
			case "zero_extend":
				var k int
				fmt.Sscanf(hd.list[2].atom, "%d", &k)
				x, s := r.tr(t.list[1], env)
				return x, bvSortSx(bvWidth(s) + k)
			case "sign_extend":
				var k int
				fmt.Sscanf(hd.list[2].atom, "%d", &k)
				x, s := r.tr(t.list[1], env)
				w := bvWidth(s)
				// x >= 2^(w-1) ? x + (2^(w+k) - 2^w) : x
				add := new(big.Int).Sub(new(big.Int).Lsh(big.NewInt(1), uint(w+k)), new(big.Int).Lsh(big.NewInt(1), uint(w)))
				letCtr++
				v := atom(fmt.Sprintf("sx!%d", letCtr))
				return lst(atom("let"), lst(lst(v, x)), lst(atom("ite"), lst(atom(">="), v, atom(pow2(w-1))), lst(atom("+"), v, atom(add.String())), v)), bvSortSx(w + k)
			case "is":
				x, _ := r.tr(t.list[1], env)
				return lst(hd, x), sortBool_
			}
		}
		if len(hd.list) == 3 && hd.list[0].atom == "as" && hd.list[1].atom == "const" {
			x, _ := r.tr(t.list[1], env)
			return lst(lst(atom("as"), atom("const"), r.trSort(hd.list[2])), x), hd.list[2]
		}
		r.fail("unsupported head %s", hd.String())
		return t, sortInt_
	}
	h := hd.atom
	if h == "_" && len(t.list) == 3 && strings.HasPrefix(t.list[1].atom, "bv") {
		var w int
		fmt.Sscanf(t.list[2].atom, "%d", &w)
		return atom(t.list[1].atom[2:]), bvSortSx(w)
	}
	switch h {
	case "let":
		nenv := env
		binds := &sx{list: []*sx{}}
		for _, b := range t.list[1].list {
			v, s := r.tr(b.list[1], env)
			binds.list = append(binds.list, lst(b.list[0], v))
			nenv = nenv.with(b.list[0].atom, s)
		}
		body, s := r.tr(t.list[2], nenv)
		return lst(atom("let"), binds, body), s
	case "forall", "exists":
		nenv := env
		binds := &sx{list: []*sx{}}
		var ranges []*sx
		for _, b := range t.list[1].list {
			binds.list = append(binds.list, lst(b.list[0], r.trSort(b.list[1])))
			nenv = nenv.with(b.list[0].atom, b.list[1])
			if w := bvWidth(b.list[1]); w > 0 {
				ranges = append(ranges, lst(atom("<="), atom("0"), b.list[0]), lst(atom("<"), b.list[0], atom(pow2(w))))
			}
		}
		bodyT := t.list[2]
		var pats []*sx
		if bodyT.head() == "!" {
			for i := 2; i+1 < len(bodyT.list); i += 2 {
				if bodyT.list[i].atom == ":pattern" {
					p := &sx{list: []*sx{}}
					for _, pt := range bodyT.list[i+1].list {
						x, _ := r.tr(pt, nenv)
						p.list = append(p.list, x)
					}
					pats = append(pats, atom(":pattern"), p)
				}
			}
			bodyT = bodyT.list[1]
		}
		body, _ := r.tr(bodyT, nenv)
		if len(ranges) > 0 {
			rg := &sx{list: append([]*sx{atom("and")}, ranges...)}
			if h == "forall" {
				body = lst(atom("=>"), rg, body)
			} else {
				body = lst(atom("and"), rg, body)
			}
		}
		if len(pats) > 0 {
			body = &sx{list: append([]*sx{atom("!"), body}, pats...)}
		}
		return lst(atom(h), binds, body), sortBool_
	case "!":
		x, s := r.tr(t.list[1], env)
		return x, s
	case "not", "and", "or", "=>", "xor":
		out := &sx{list: []*sx{hd}}
		for _, c := range t.list[1:] {
			x, _ := r.tr(c, env)
			out.list = append(out.list, x)
		}
		return out, sortBool_
	case "=", "distinct":
		out := &sx{list: []*sx{hd}}
		for _, c := range t.list[1:] {
			x, _ := r.tr(c, env)
			out.list = append(out.list, x)
		}
		return out, sortBool_
	case "ite":
		c, _ := r.tr(t.list[1], env)
		a, s := r.tr(t.list[2], env)
		b, _ := r.tr(t.list[3], env)
		return lst(hd, c, a, b), s
	case "select":
		a, s := r.tr(t.list[1], env)
		i, _ := r.tr(t.list[2], env)
		var es *sx = sortInt_
		if s != nil && s.list != nil && len(s.list) == 3 && s.list[0].atom == "Array" {
			es = s.list[2]
		}
		res := lst(hd, a, i)
		if w := bvWidth(es); w > 0 && len(env) == 0 {
			r.needRange(res, w)
		}
		return res, es
	case "store":
		a, s := r.tr(t.list[1], env)
		i, _ := r.tr(t.list[2], env)
		v, _ := r.tr(t.list[3], env)
		return lst(hd, a, i, v), s
	case "+", "-", "*", "<", "<=", ">", ">=", "div", "mod":
		out := &sx{list: []*sx{hd}}
		for _, c := range t.list[1:] {
			x, _ := r.tr(c, env)
			out.list = append(out.list, x)
		}
		if h == "<" || h == "<=" || h == ">" || h == ">=" {
			return out, sortBool_
		}
		return out, sortInt_
	case "concat":
		acc, s := r.tr(t.list[1], env)
		w := bvWidth(s)
		for _, c := range t.list[2:] {
			x, sc := r.tr(c, env)
			wc := bvWidth(sc)
			acc = lst(atom("+"), lst(atom("*"), acc, atom(pow2(wc))), x)
			w += wc
		}
		return acc, bvSortSx(w)
	case "bvadd", "bvsub", "bvmul":
		x, s := r.tr(t.list[1], env)
		w := bvWidth(s)
		op := map[string]string{"bvadd": "+", "bvsub": "-", "bvmul": "*"}[h]
		acc := x
		for _, c := range t.list[2:] {
			y, _ := r.tr(c, env)
			acc = lst(atom(op), acc, y)
		}
		return lst(atom("mod"), acc, atom(pow2(w))), s
	case "bvneg":
		x, s := r.tr(t.list[1], env)
		return lst(atom("mod"), lst(atom("-"), x), atom(pow2(bvWidth(s)))), s
	case "bvnot":
		x, s := r.tr(t.list[1], env)
		w := bvWidth(s)
		m := new(big.Int).Sub(new(big.Int).Lsh(big.NewInt(1), uint(w)), big.NewInt(1))
		return lst(atom("-"), atom(m.String()), x), s
	case "bvult", "bvule", "bvugt", "bvuge":
		x, _ := r.tr(t.list[1], env)
		y, _ := r.tr(t.list[2], env)
		op := map[string]string{"bvult": "<", "bvule": "<=", "bvugt": ">", "bvuge": ">="}[h]
		return lst(atom(op), x, y), sortBool_
	case "bvslt", "bvsle", "bvsgt", "bvsge":
		x, s := r.tr(t.list[1], env)
		y, _ := r.tr(t.list[2], env)
		w := bvWidth(s)
		if w == 0 {
			r.fail("unknown width of %s (sort %v)", truncate(t.list[1].String(), 200), s)
			return t, sortBool_
		}
		op := map[string]string{"bvslt": "<", "bvsle": "<=", "bvsgt": ">", "bvsge": ">="}[h]
		return lst(atom(op), signedOf(x, w), signedOf(y, w)), sortBool_
	case "bvudiv", "bvurem":
		x, s := r.tr(t.list[1], env)
		y, _ := r.tr(t.list[2], env)
		w := bvWidth(s)
		if h == "bvudiv" {
			m := new(big.Int).Sub(new(big.Int).Lsh(big.NewInt(1), uint(w)), big.NewInt(1))
			return lst(atom("ite"), lst(atom("="), y, atom("0")), atom(m.String()), lst(atom("div"), x, y)), s
		}
		return lst(atom("ite"), lst(atom("="), y, atom("0")), x, lst(atom("mod"), x, y)), s
	case "bvshl", "bvlshr":
		x, s := r.tr(t.list[1], env)
		w := bvWidth(s)
		if v, _, ok := litValue(t.list[2].atom); ok && t.list[2].list == nil {
			k := int(v.Int64())
			if v.Cmp(big.NewInt(int64(w))) >= 0 {
				return atom("0"), s
			}
			if h == "bvshl" {
				return lst(atom("mod"), lst(atom("*"), x, atom(pow2(k))), atom(pow2(w))), s
			}
			return lst(atom("div"), x, atom(pow2(k))), s
		}
		y, _ := r.tr(t.list[2], env)
		return r.ufApp(h, w, 2, s, x, y, env), s
	case "bvand":
		x, s := r.tr(t.list[1], env)
		w := bvWidth(s)
		// mask 2^k - 1
		for i := 1; i <= 2; i++ {
			if v, _, ok := litValue(t.list[i].atom); ok && t.list[i].list == nil {
				vp := new(big.Int).Add(v, big.NewInt(1))
				if vp.BitLen() > 0 && new(big.Int).And(vp, v).Sign() == 0 { // v+1 power of two
					other, _ := r.tr(t.list[3-i], env)
					return lst(atom("mod"), other, atom(vp.String())), s
				}
			}
		}
		y, _ := r.tr(t.list[2], env)
		return r.ufApp(h, w, 2, s, x, y, env), s
	case "bvor", "bvxor", "bvashr", "bvsdiv", "bvsrem", "bvsmod":
		x, s := r.tr(t.list[1], env)
		y, _ := r.tr(t.list[2], env)
		return r.ufApp(h, bvWidth(s), 2, s, x, y, env), s
	}
	// application of a declared / defined function, constructor or selector
	sig, ok := r.funs[h]
	if !ok {
		r.fail("unknown function %s", h)
		return t, sortInt_
	}
	out := &sx{list: []*sx{hd}}
	for _, c := range t.list[1:] {
		x, _ := r.tr(c, env)
		out.list = append(out.list, x)
	}
	if w := bvWidth(sig.ret); w > 0 && len(env) == 0 && !r.isDefined[h] {
		r.needRange(out, w)
	}
	return out, sig.ret
}

func signedOf(x *sx, w int) *sx {
	if x.list == nil {
		if v, ok := new(big.Int).SetString(x.atom, 10); ok {
			if v.Cmp(new(big.Int).Lsh(big.NewInt(1), uint(w-1))) >= 0 {
				v = new(big.Int).Sub(v, new(big.Int).Lsh(big.NewInt(1), uint(w)))
			}
			if v.Sign() < 0 {
				return lst(atom("-"), atom(new(big.Int).Neg(v).String()))
			}
			return atom(v.String())
		}
	}
	if x.list == nil {
		return lst(atom("ite"), lst(atom(">="), x, atom(pow2(w-1))), lst(atom("-"), x, atom(pow2(w))), x)
	}
	letCtr++
	v := atom(fmt.Sprintf("sgn!%d", letCtr))
	return lst(atom("let"), lst(lst(v, x)), lst(atom("ite"), lst(atom(">="), v, atom(pow2(w-1))), lst(atom("-"), v, atom(pow2(w))), v))
}

var letCtr int

func (r *intRenderer) ufApp(op string, w, n int, s *sx, x, y *sx, env irEnv) *sx {
	name := fmt.Sprintf("%s_%d", op, w)
	if _, ok := r.uf[name]; !ok {
		r.uf[name] = fmt.Sprintf("(declare-fun %s (Int Int) Int)", name)
	}
	res := lst(atom(name), x, y)
	if len(env) == 0 {
		r.needRange(res, w)
	}
	return res
}

func (r *intRenderer) needRange(t *sx, w int) {
	k := t.String()
	if _, ok := r.rangeFor[k]; !ok {
		r.rangeFor[k] = w
		r.order = append(r.order, k)
	}
}

func (r *intRenderer) fail(format string, args ...interface{}) {
	if r.err == nil {
		r.err = fmt.Errorf(format, args...)
	}
}

// toIntRendering translates a whole query.
func toIntRendering(text string) (string, error) {
	forms, err := parseSexps(text)
	if err != nil {
		return "", err
	}
	r := &intRenderer{consts: map[string]*sx{}, funs: map[string]irSig{}, uf: map[string]string{}, rangeFor: map[string]int{}, isDefined: map[string]bool{}}
	var out []string
	flushRanges := func() {
		for _, k := range r.order {
			w := r.rangeFor[k]
			if w > 0 {
				out = append(out, fmt.Sprintf("(assert (and (<= 0 %s) (< %s %s)))", k, k, pow2(w)))
				r.rangeFor[k] = -1
			}
		}
		r.order = nil
	}
	ufEmitted := map[string]bool{}
	flushUF := func() {
		for _, k := range sortedKeys(r.uf) {
			if !ufEmitted[k] {
				ufEmitted[k] = true
				out = append(out, r.uf[k])
			}
		}
	}
	for _, f := range forms {
		switch f.head() {
		case "set-logic", "set-option", "check-sat", "get-value", "get-model":
			if f.head() == "get-value" || f.head() == "get-model" {
				continue
			}
			out = append(out, f.String())
		case "declare-sort":
			out = append(out, f.String())
		case "declare-datatypes":
			// ((Name 0)) (((ctor (sel sort)...) ...))
			names := f.list[1].list
			for di, d := range f.list[2].list {
				dt := atom(names[di].list[0].atom)
				for _, ctor := range d.list {
					if ctor.list == nil {
						r.funs[ctor.atom] = irSig{ret: dt}
						r.consts[ctor.atom] = dt
						continue
					}
					var args []*sx
					for _, sel := range ctor.list[1:] {
						r.funs[sel.list[0].atom] = irSig{args: []*sx{dt}, ret: sel.list[1]}
						args = append(args, sel.list[1])
					}
					r.funs[ctor.list[0].atom] = irSig{args: args, ret: dt}
					r.isDefined[ctor.list[0].atom] = true
					if len(args) == 0 {
						r.consts[ctor.list[0].atom] = dt
					}
				}
			}
			out = append(out, r.trSort(f).String())
		case "declare-const":
			name := f.list[1].atom
			r.consts[name] = f.list[2]
			out = append(out, lst(f.list[0], f.list[1], r.trSort(f.list[2])).String())
			if w := bvWidth(f.list[2]); w > 0 {
				out = append(out, fmt.Sprintf("(assert (and (<= 0 %s) (< %s %s)))", name, name, pow2(w)))
			}
		case "declare-fun":
			name := f.list[1].atom
			r.funs[name] = irSig{args: f.list[2].list, ret: f.list[3]}
			if len(f.list[2].list) == 0 {
				r.consts[name] = f.list[3]
			}
			out = append(out, lst(f.list[0], f.list[1], r.trSort(f.list[2]), r.trSort(f.list[3])).String())
		case "define-fun", "define-fun-rec":
			name := f.list[1].atom
			env := irEnv{}
			params := &sx{list: []*sx{}}
			var args []*sx
			for _, p := range f.list[2].list {
				env[p.list[0].atom] = p.list[1]
				params.list = append(params.list, lst(p.list[0], r.trSort(p.list[1])))
				args = append(args, p.list[1])
			}
			if f.head() == "define-fun-rec" {
				r.funs[name] = irSig{args: args, ret: f.list[3]}
			}
			if len(env) == 0 {
				env = nil
			}
			body, _ := r.tr(f.list[4], env)
			r.funs[name] = irSig{args: args, ret: f.list[3]}
			r.isDefined[name] = true
			if len(args) == 0 {
				r.consts[name] = f.list[3]
			}
			flushUF()
			out = append(out, lst(f.list[0], f.list[1], params, r.trSort(f.list[3]), body).String())
			flushRanges()
		case "assert":
			body, _ := r.tr(f.list[1], nil)
			flushUF()
			out = append(out, lst(f.list[0], body).String())
			flushRanges()
		default:
			out = append(out, f.String())
		}
		if r.err != nil {
			return "", r.err
		}
	}
	// check-sat must come last: move it
	var final []string
	for _, l := range out {
		if l != "(check-sat)" {
			final = append(final, l)
		}
	}
	final = append(final, "(check-sat)")
	return strings.Join(final, "\n") + "\n", nil
}
