package main

import (
	"fmt"
	"go/types"
	"os"
	"sort"
	"strings"

	"golang.org/x/tools/go/packages"
	"golang.org/x/tools/go/ssa"
	"golang.org/x/tools/go/ssa/ssautil"
)

// Program is the loaded, SSA-built view of /repo's current working tree.
type Program struct {
	Prog   *ssa.Program
	Pkgs   []*packages.Package
	byPath map[string]*packages.Package
	funcs  map[string]*ssa.Function // RelString-like key -> function
}

func repoDir() string {
	if d := os.Getenv("GOCV_REPO"); d != "" {
		return d
	}
	return "/repo"
}

// loadProgram type-checks the given package patterns of the repository (and all
// their dependencies, from source) with the build tag "verif" and builds SSA.
func loadProgram(patterns []string) (*Program, error) {
	cfg := &packages.Config{
		Mode:       packages.LoadAllSyntax,
		Dir:        repoDir(),
		BuildFlags: []string{"-tags=verif"},
		Tests:      false,
		Env:        os.Environ(),
	}
	pkgs, err := packages.Load(cfg, patterns...)
	if err != nil {
		return nil, err
	}
	nerr := 0
	packages.Visit(pkgs, nil, func(p *packages.Package) {
		for _, e := range p.Errors {
			if strings.HasPrefix(p.PkgPath, modPrefix()) {
				fmt.Fprintf(os.Stderr, "load error: %s: %v\n", p.PkgPath, e)
				nerr++
			}
		}
	})
	if nerr > 0 {
		return nil, fmt.Errorf("%d load errors in repository packages", nerr)
	}
	prog, _ := ssautil.AllPackages(pkgs, ssa.InstantiateGenerics|ssa.GlobalDebug)
	prog.Build()
	P := &Program{Prog: prog, Pkgs: pkgs, byPath: map[string]*packages.Package{}, funcs: map[string]*ssa.Function{}}
	packages.Visit(pkgs, nil, func(p *packages.Package) { P.byPath[p.PkgPath] = p })
	for fn := range ssautil.AllFunctions(prog) {
		P.funcs[funcKey(fn)] = fn
	}
	return P, nil
}

// funcKey is the name under which contracts refer to a function:
// "pkgpath.Func", "pkgpath.(*T).Method", "pkgpath.T.Method", literals "parent$N".
func funcKey(fn *ssa.Function) string {
	if fn.Parent() != nil {
		return funcKey(fn.Parent()) + strings.TrimPrefix(fn.Name(), fn.Parent().Name())
	}
	if o := fn.Origin(); o != nil && o != fn {
		// generic instance: key by instance name
		return fn.String()
	}
	return fn.String()
}

func (P *Program) lookupFunc(key string) *ssa.Function {
	if f, ok := P.funcs[key]; ok {
		return f
	}
	return nil
}

func (P *Program) findFuncs(substr string) []*ssa.Function {
	var out []*ssa.Function
	for k, f := range P.funcs {
		if strings.Contains(k, substr) {
			out = append(out, f)
		}
	}
	sort.Slice(out, func(i, j int) bool { return funcKey(out[i]) < funcKey(out[j]) })
	return out
}

var _ = types.Typ
