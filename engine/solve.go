package main

import (
	"hash/fnv"
	"bytes"
	"context"
	"fmt"
	"os"
	"os/exec"
	"path/filepath"
	"regexp"
	"sort"
	"strings"
	"sync"
	"time"
)

type solverCfg struct {
	name string
	bin  string
	args []string
	kind string // z3 | cvc5
}

var (
	cfgZ3New    = solverCfg{"z3-new", "z3-new", nil, "z3"}
	cfgZ3NewNoA = solverCfg{"z3-new(auto_config=false,mbqi=false)", "z3-new", []string{"smt.auto_config=false", "smt.mbqi=false"}, "z3"}
	cfgZ3NewEuf = solverCfg{"z3-new(smt,sat.euf)", "z3-new", []string{"tactic.default_tactic=smt", "sat.euf=true"}, "z3"}
	cfgZ3Old    = solverCfg{"z3-4.8.12", "z3", nil, "z3"}
	cfgZ3OldNoA = solverCfg{"z3-4.8.12(auto_config=false,mbqi=false)", "z3", []string{"smt.auto_config=false", "smt.mbqi=false"}, "z3"}
	cfgCvc5     = solverCfg{"cvc5", "cvc5", nil, "cvc5"}
	cfgCvc5Enum = solverCfg{"cvc5(enum-inst)", "cvc5", []string{"--enum-inst"}, "cvc5"}
)

var sfSymRe = regexp.MustCompile(`sf_[A-Za-z0-9_]+`)

var floatFnRe = regexp.MustCompile(`\b((?:i2f|u2f|f2i|f2f)_(\d+)_(\d+)|f_(?:add|sub|mul|div|neg|lt|le|eq))\b`)

// render builds the self-contained SMT-LIB text of one obligation.
func (V *Verifier) render(o *Obligation, withModel bool) string {
	e := o.enc
	var b strings.Builder
	if withModel {
		b.WriteString("(set-option :produce-models true)\n")
	}
	b.WriteString(preamble)
	b.WriteString("(declare-fun strbyte (Str (_ BitVec 64)) (_ BitVec 8))\n(declare-fun strof ((Array Ref (_ BitVec 8)) Slice) Str)\n(declare-fun chancap (Ref) (_ BitVec 64))\n")
	for _, d := range V.ST.decls {
		b.WriteString(d + "\n")
	}
	// string constants
	b.WriteString("(declare-const str_empty Str)\n(assert (= (strlen str_empty) #x0000000000000000))\n")
	var sc []string
	for _, k := range sortedKeys(V.strConst) {
		n := V.strConst[k]
		if n == "str_empty" {
			continue
		}
		sc = append(sc, n)
		fmt.Fprintf(&b, "(declare-const %s Str)\n(assert (= (strlen %s) %s))\n", n, n, bvLit(64, uint64(len(k))))
	}
	if len(sc) > 0 {
		fmt.Fprintf(&b, "(assert (distinct str_empty %s))\n", strings.Join(sc, " "))
	}
	for _, k := range sortedKeys(floatConsts) {
		b.WriteString(floatConsts[k] + "\n")
	}
	ctxLines := e.ctx[:o.CtxLen]
	if !o.Cover {
		ctxLines = relevantCtx(ctxLines, o.Goal)
	}
	body := strings.Join(e.lazy, "\n") + "\n" + strings.Join(ctxLines, "\n") + "\n" + o.Goal
	extra := strings.Join(V.extraDecl, "\n")
	used := make([]bool, len(V.axiomTerms))
	// float function declarations (uninterpreted)
	seen := map[string]bool{}
	for _, m := range floatFnRe.FindAllStringSubmatch(body+extra, -1) {
		name := m[1]
		if seen[name] {
			continue
		}
		seen[name] = true
		switch {
		case strings.HasPrefix(name, "f_add"), strings.HasPrefix(name, "f_sub"), strings.HasPrefix(name, "f_mul"), strings.HasPrefix(name, "f_div"):
			fmt.Fprintf(&b, "(declare-fun %s ((_ BitVec 64) (_ BitVec 64)) (_ BitVec 64))\n", name)
		case name == "f_neg":
			fmt.Fprintf(&b, "(declare-fun %s ((_ BitVec 64)) (_ BitVec 64))\n", name)
		case name == "f_lt", name == "f_le", name == "f_eq":
			fmt.Fprintf(&b, "(declare-fun %s ((_ BitVec 64) (_ BitVec 64)) Bool)\n", name)
		default:
			fmt.Fprintf(&b, "(declare-fun %s ((_ BitVec %s)) (_ BitVec %s))\n", name, m[2], m[3])
		}
	}
	b.WriteString(extra + "\n")
	// definitional axioms: only those whose spec functions the query mentions (closed
	// under the functions their definitions use)
	need := body
	for changed := true; changed; {
		changed = false
		for i, ax := range V.axiomTerms {
			if used[i] {
				continue
			}
			for _, sym := range sfSymRe.FindAllString(ax, -1) {
				if strings.Contains(need, sym+" ") || strings.Contains(need, sym+")") {
					used[i] = true
					need += ax
					changed = true
					break
				}
			}
		}
	}
	for i, ax := range V.axiomTerms {
		if used[i] {
			b.WriteString("(assert " + ax + ")\n")
		}
	}
	b.WriteString(strings.Join(e.lazy, "\n") + "\n")
	b.WriteString(strings.Join(ctxLines, "\n") + "\n")
	if o.Cover {
		b.WriteString("(assert " + o.Goal + ")\n")
	} else {
		b.WriteString("(assert (not " + o.Goal + "))\n")
	}
	b.WriteString("(check-sat)\n")
	if withModel && len(o.enc.inputs) > 0 {
		var ts []string
		for _, in := range o.enc.inputs {
			ts = append(ts, in.Term)
		}
		b.WriteString("(get-value (" + strings.Join(ts, " ") + "))\n")
	}
	return b.String()
}

var guardNameRe = regexp.MustCompile(`\b(reach_b[0-9]+_[0-9]+|edge_[0-9]+_[0-9]+_[0-9]+)\b`)

// relevantCtx drops the facts that are guarded by the reachability of a block which is not
// on any path to the obligation (code after the loop when the obligation is inside it,
// sibling branches): they cannot contribute to the proof and only burden the solver.
// Dropping hypotheses is always sound. The guards a goal depends on are found through
// the definitions (= reach_X rhs) of the reachability constants it mentions.
func relevantCtx(ctx0 []string, goal string) []string {
	var ctx []string
	for _, l := range ctx0 {
		if strings.Contains(l, "\n") {
			ctx = append(ctx, strings.Split(l, "\n")...)
		} else {
			ctx = append(ctx, l)
		}
	}
	defs := map[string]string{}
	for _, l := range ctx {
		if strings.HasPrefix(l, "(assert (= reach_") || strings.HasPrefix(l, "(assert (= edge_") {
			rest := l[len("(assert (= "):]
			if i := strings.IndexByte(rest, ' '); i > 0 {
				defs[rest[:i]] = rest[i:]
			}
		} else if strings.HasPrefix(l, "(define-fun reach_") || strings.HasPrefix(l, "(define-fun edge_") {
			rest := l[len("(define-fun "):]
			if i := strings.IndexByte(rest, ' '); i > 0 {
				defs[rest[:i]] = rest[i:]
			}
		}
	}
	need := map[string]bool{}
	var work []string
	for _, n := range guardNameRe.FindAllString(goal, -1) {
		if !need[n] {
			need[n] = true
			work = append(work, n)
		}
	}
	if len(work) == 0 {
		return ctx
	}
	for len(work) > 0 {
		n := work[len(work)-1]
		work = work[:len(work)-1]
		for _, m := range guardNameRe.FindAllString(defs[n], -1) {
			if !need[m] {
				need[m] = true
				work = append(work, m)
			}
		}
	}
	out := make([]string, 0, len(ctx))
	for _, l := range ctx {
		if strings.HasPrefix(l, "(assert (=> reach_") || strings.HasPrefix(l, "(assert (=> edge_") {
			rest := l[len("(assert (=> "):]
			if i := strings.IndexByte(rest, ' '); i > 0 && !need[rest[:i]] {
				continue
			}
		}
		out = append(out, l)
	}
	return out
}

var solverSem = make(chan struct{}, 18)

func runSolver(cfg solverCfg, file string, timeout time.Duration, seed int) (string, string, time.Duration) {
	return runSolverCtx(context.Background(), cfg, file, timeout, seed)
}

func runSolverCtx(parent context.Context, cfg solverCfg, file string, timeout time.Duration, seed int) (string, string, time.Duration) {
	select {
	case solverSem <- struct{}{}:
	case <-parent.Done():
		return "cancelled", "", 0
	}
	defer func() { <-solverSem }()
	var args []string
	ms := int(timeout / time.Millisecond)
	switch cfg.kind {
	case "z3":
		args = append(args, cfg.args...)
		args = append(args, fmt.Sprintf("-t:%d", ms), fmt.Sprintf("smt.random_seed=%d", seed), fmt.Sprintf("sat.random_seed=%d", seed), file)
	case "cvc5":
		args = append(args, cfg.args...)
		args = append(args, fmt.Sprintf("--tlimit=%d", ms), fmt.Sprintf("--seed=%d", seed), "--produce-models", file)
	}
	ctx, cancel := context.WithTimeout(parent, timeout+2*time.Second)
	defer cancel()
	cmd := exec.CommandContext(ctx, cfg.bin, args...)
	var out bytes.Buffer
	cmd.Stdout = &out
	cmd.Stderr = &out
	start := time.Now()
	_ = cmd.Run()
	el := time.Since(start)
	text := out.String()
	for _, ln := range strings.Split(text, "\n") {
		ln = strings.TrimSpace(ln)
		if ln == "" || strings.HasPrefix(ln, "WARNING") {
			continue
		}
		switch ln {
		case "unsat", "sat", "unknown":
			return ln, text, el
		}
		break // anything else before the verdict (an error) is fatal
	}
	if ctx.Err() != nil || strings.Contains(text, "timeout") || strings.Contains(text, "interrupted") {
		return "timeout", text, el
	}
	return "error", text, el
}

type solveOpts struct {
	timeout time.Duration // per solver configuration
	seed    int
	outDir  string
	workers int
	all     bool // thorough: run every configuration and record agreement
}

func (V *Verifier) solveAll(obls []*Obligation, opt solveOpts) {
	os.MkdirAll(opt.outDir, 0o755)
	var wg sync.WaitGroup
	ch := make(chan *Obligation)
	for w := 0; w < opt.workers; w++ {
		wg.Add(1)
		go func() {
			defer wg.Done()
			for o := range ch {
				V.solveOne(o, opt)
			}
		}()
	}
	// hardest first is unknown; keep order
	for _, o := range obls {
		if o.Result != "" {
			continue
		}
		ch <- o
	}
	close(ch)
	wg.Wait()
}

var oblFileRe = regexp.MustCompile(`[^A-Za-z0-9_.#@\[\]-]+`)

func oblFile(dir string, o *Obligation) string {
	n := oblFileRe.ReplaceAllString(o.Name, "_")
	if len(n) > 170 {
		n = n[len(n)-170:]
	}
	// distinct obligations can map to the same sanitised name (len(p)/32 and len(p)%32): a
	// short hash of the full name keeps their files apart
	h := fnv.New32a()
	h.Write([]byte(o.Name))
	return filepath.Join(dir, fmt.Sprintf("%s.%08x.smt2", n, h.Sum32()))
}

func (V *Verifier) solveOne(o *Obligation, opt solveOpts) {
	text := V.render(o, true)
	quant := strings.Contains(text[len(preamble):], "(forall ") || strings.Contains(text[len(preamble):], "(exists ") || strings.Contains(text, "define-fun-rec")
	o.Quantified = quant
	file := oblFile(opt.outDir, o)
	if err := os.WriteFile(file, []byte(text), 0o644); err != nil {
		o.Result, o.Output = "error", err.Error()
		return
	}
	start := time.Now()
	var outs []string
	finish := func(res, solver, out string) {
		o.Result, o.Solver, o.Output = res, solver, out
		o.Ms = time.Since(start).Milliseconds()
		if res == "unsat" && !o.Cover && os.Getenv("GOCV_KEEP") == "" {
			os.Remove(file)
		}
	}
	// try runs one derived (sound-for-unsat) variant of the query; only unsat counts.
	try := func(tag, vtext string, cfgs []solverCfg, tl time.Duration) bool {
		vfile := strings.TrimSuffix(file, ".smt2") + "." + tag + ".smt2"
		if err := os.WriteFile(vfile, []byte(vtext), 0o644); err != nil {
			return false
		}
		defer os.Remove(vfile)
		for _, cfg := range cfgs {
			res, out, _ := runSolver(cfg, vfile, tl, opt.seed)
			outs = append(outs, fmt.Sprintf("[%s %s %v] %s", tag, cfg.name, tl, firstLines(out, 3)))
			if res == "unsat" {
				finish("unsat", cfg.name+"["+tag+"]", out)
				return true
			}
		}
		return false
	}
	short := opt.timeout / 4
	if short < time.Second {
		short = time.Second
	}
	switch o.Kind {
	case "nil", "bounds", "slice", "div0", "shift", "assert-type", "conv-len", "make-len", "nilmap", "panic", "model":
		// run-time-check obligations are simple facts: if they do not discharge quickly they
		// will not discharge at all; keep sweeps over large handlers affordable
		if opt.timeout > 2*short {
			opt.timeout = 2 * short
		}
	}
	if o.Cover {
		for _, cfg := range []solverCfg{cfgZ3New, cfgCvc5} {
			res, out, _ := runSolver(cfg, file, opt.timeout, opt.seed)
			if res == "sat" || res == "unsat" {
				finish(res, cfg.name, out)
				return
			}
		}
		finish("unknown", "portfolio", "")
		return
	}
	if !quant {
		// quantifier-free: the bit-vector query decides (sat = counterexample)
		for _, cfg := range []solverCfg{cfgZ3New, cfgCvc5} {
			res, out, _ := runSolver(cfg, file, short, opt.seed)
			outs = append(outs, fmt.Sprintf("[%s %v] %s", cfg.name, short, firstLines(out, 3)))
			if res == "sat" || res == "unsat" {
				finish(res, cfg.name, out)
				return
			}
			if res == "error" {
				finish("error", cfg.name, out)
				return
			}
		}
		// split on the conditions of merged slices / memories (every case must be refuted):
		// reads through an if/else merge of store chains resolve syntactically in each case
		if cases, _ := ematchCasesSplit(text, 40, 200, 1, true, true); len(cases) > 1 {
			all := true
			for ci, ct := range cases {
				vfile := fmt.Sprintf("%s.qs%d.smt2", strings.TrimSuffix(file, ".smt2"), ci)
				if err := os.WriteFile(vfile, []byte(ct), 0o644); err != nil {
					all = false
					break
				}
				res, out, _ := runSolver(cfgZ3New, vfile, opt.timeout/2, opt.seed)
				outs = append(outs, fmt.Sprintf("[qf-split case %d/%d] %s", ci, len(cases), firstLines(out, 2)))
				os.Remove(vfile)
				if res != "unsat" {
					all = false
					break
				}
			}
			if all {
				finish("unsat", fmt.Sprintf("z3-new[qf, %d-way split on merges]", len(cases)), "")
				return
			}
		}
		if it, err := toIntRendering(text); err == nil {
			if try("int", it, []solverCfg{cfgZ3New, cfgCvc5}, opt.timeout) {
				return
			}
		} else {
			outs = append(outs, "[int] "+err.Error())
		}
		for _, cfg := range []solverCfg{cfgZ3New, cfgCvc5, cfgZ3Old} {
			res, out, _ := runSolver(cfg, file, opt.timeout, opt.seed)
			outs = append(outs, fmt.Sprintf("[%s %v] %s", cfg.name, opt.timeout, firstLines(out, 3)))
			if res == "sat" || res == "unsat" {
				finish(res, cfg.name, out)
				return
			}
		}
		finish("unknown", "portfolio", strings.Join(outs, "\n"))
		return
	}
	// quantified context. 1: without any quantified hypothesis (sound: fewer hypotheses)
	var keep []string
	for _, ln := range strings.Split(text, "\n") {
		if strings.HasPrefix(ln, "(assert") && (strings.Contains(ln, "(forall ") || strings.Contains(ln, "(exists ")) && !strings.HasPrefix(ln, "(assert (not ") {
			continue
		}
		if strings.HasPrefix(ln, "(get-value") {
			continue
		}
		keep = append(keep, ln)
	}
	qf := strings.Join(keep, "\n")
	if !strings.Contains(qf[len(preamble):], "(forall ") && !strings.Contains(qf[len(preamble):], "(exists ") && !strings.Contains(qf, "define-fun-rec") {
		if try("qf", qf, []solverCfg{cfgZ3New}, short) {
			return
		}
		if it, err := toIntRendering(qf); err == nil {
			if try("qf-int", it, []solverCfg{cfgZ3New}, short) {
				return
			}
		} else {
			outs = append(outs, "[qf-int] "+err.Error())
		}
	}
	// 1b: pattern-directed instantiation (ematch.go), split on merged slices / memories:
	// quantifier free, every case must be refuted
	for li, lvl := range [][5]int{{60, 1500, 8, 1, 0}, {60, 1500, 8, 1, 1}, {40, 1200, 4, 0, 0}, {200, 6000, 6, 0, 1}} {
		cases, n := ematchCasesSplit(text, lvl[0], lvl[1], lvl[2], lvl[3] == 1, lvl[4] == 1)
		if len(cases) == 0 {
			continue
		}
		all := true
		for ci, ct := range cases {
			vfile := fmt.Sprintf("%s.em%d.smt2", strings.TrimSuffix(file, ".smt2"), ci)
			if err := os.WriteFile(vfile, []byte(ct), 0o644); err != nil {
				all = false
				break
			}
			okc := false
			for _, cfg := range []solverCfg{cfgZ3New, cfgCvc5} {
				res, out, _ := runSolver(cfg, vfile, opt.timeout/2, opt.seed)
				outs = append(outs, fmt.Sprintf("[ematch case %d/%d %s] %s", ci, len(cases), cfg.name, firstLines(out, 2)))
				if res == "unsat" {
					okc = true
					break
				}
				if res == "sat" {
					break // instances missing: another solver will not help
				}
			}
			if !okc {
				if it, err := toIntRendering(ct); err == nil {
					ifile := vfile + ".int.smt2"
					if os.WriteFile(ifile, []byte(it), 0o644) == nil {
						res, out, _ := runSolver(cfgZ3New, ifile, opt.timeout/2, opt.seed)
						outs = append(outs, fmt.Sprintf("[ematch-int case %d/%d] %s", ci, len(cases), firstLines(out, 2)))
						okc = res == "unsat"
						os.Remove(ifile)
					}
				}
			}
			os.Remove(vfile)
			if !okc {
				all = false
				break
			}
		}
		if all {
			finish("unsat", fmt.Sprintf("z3-new/cvc5[ematch%d:%d instances, %d cases]", li, n, len(cases)), "")
			return
		}
	}
	// 2: race the remaining strategies; the first "unsat" wins. Derived variants
	// (instantiated / integer-rendered) are sound for unsat only; the full query may
	// also answer "sat".
	type variant struct {
		tag   string
		text  string
		cfg   solverCfg
		exact bool // the full query: sat counts
	}
	var vs []variant
	inst4, n4, splits := instantiateObligation2(text, 4)
	if inst4 != "" {
		tag := fmt.Sprintf("inst4:%d", n4)
		if it, err := toIntRendering(inst4); err == nil {
			vs = append(vs, variant{tag + "-int", it, cfgZ3New, false}, variant{tag + "-int", it, cfgCvc5, false})
		}
		vs = append(vs, variant{tag, inst4, cfgZ3New, false})
	}
	vs = append(vs, variant{"full", text, cfgCvc5Enum, true}, variant{"full", text, cfgZ3NewEuf, true}, variant{"full", text, cfgZ3New, true},
		variant{"full", text, cfgZ3Old, true}, variant{"full", text, cfgZ3NewNoA, true})
	if it, err := toIntRendering(text); err == nil {
		vs = append(vs, variant{"full-int", it, cfgZ3New, false})
	}
	if inst12, n12, _ := instantiateObligation2(text, 12); inst12 != "" && n12 != n4 {
		tag := fmt.Sprintf("inst12:%d", n12)
		if it, err := toIntRendering(inst12); err == nil {
			vs = append(vs, variant{tag + "-int", it, cfgZ3New, false})
		}
	}
	type outcome struct {
		res, solver, out string
	}
	ctx, cancel := context.WithCancel(context.Background())
	ch := make(chan outcome, len(vs))
	for i, v := range vs {
		i, v := i, v
		go func() {
			vfile := file
			if v.tag != "full" {
				vfile = fmt.Sprintf("%s.v%d.smt2", strings.TrimSuffix(file, ".smt2"), i)
				if err := os.WriteFile(vfile, []byte(v.text), 0o644); err != nil {
					ch <- outcome{"error", v.cfg.name, err.Error()}
					return
				}
				defer os.Remove(vfile)
			}
			res, out, _ := runSolverCtx(ctx, v.cfg, vfile, opt.timeout, opt.seed)
			name := v.cfg.name
			if v.tag != "full" {
				name += "[" + v.tag + "]"
			}
			if !v.exact && res != "unsat" {
				res = "unknown"
			}
			ch <- outcome{res, name, out}
		}()
	}
	var final *outcome
	for range vs {
		oc := <-ch
		outs = append(outs, fmt.Sprintf("[%s] %s %s", oc.solver, oc.res, firstLines(oc.out, 2)))
		if final == nil && (oc.res == "unsat" || oc.res == "sat") {
			o2 := oc
			final = &o2
			cancel()
		}
	}
	cancel()
	if final != nil {
		finish(final.res, final.solver, final.out)
		return
	}
	// 3: case split on the guards of the instances at the skolem constants: each case is
	// solved separately (all must be unsat), which lets preprocessing specialise the query
	if inst4 != "" && len(splits) > 0 {
		if len(splits) > 3 {
			splits = splits[:3]
		}
		base := strings.Replace(inst4, "(check-sat)", "", 1)
		all := true
		ncase := 1 << uint(len(splits))
		for c := 0; c < ncase && all; c++ {
			var lits []string
			for i, a := range splits {
				if c&(1<<uint(i)) != 0 {
					lits = append(lits, "(assert "+a+")")
				} else {
					lits = append(lits, "(assert (not "+a+"))")
				}
			}
			ctext := base + strings.Join(lits, "\n") + "\n(check-sat)\n"
			okc := false
			saved := *o
			if it, err := toIntRendering(ctext); err == nil {
				okc = try(fmt.Sprintf("case%d-int", c), it, []solverCfg{cfgZ3New, cfgCvc5}, opt.timeout)
			}
			if !okc {
				okc = try(fmt.Sprintf("case%d", c), ctext, []solverCfg{cfgZ3New, cfgCvc5}, opt.timeout)
			}
			*o = saved
			if !okc {
				all = false
			}
		}
		if all {
			finish("unsat", fmt.Sprintf("z3-new/cvc5[inst+%d-way case split]", ncase), "")
			return
		}
	}
	if opt.seed != 0 {
		// a proof found with any solver seed is a proof: retry once with the default seed
		opt2 := opt
		opt2.seed = 0
		V.solveOne(o, opt2)
		return
	}
	finish("unknown", "portfolio", strings.Join(outs, "\n"))
}

func firstLines(s string, n int) string {
	ls := strings.Split(strings.TrimSpace(s), "\n")
	if len(ls) > n {
		ls = ls[:n]
	}
	return strings.Join(ls, " | ")
}

func sortObls(obls []*Obligation) {
	sort.SliceStable(obls, func(i, j int) bool { return obls[i].Name < obls[j].Name })
}
