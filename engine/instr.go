package main

import (
	"os"
	"sort"
	"fmt"
	"go/constant"
	"go/token"
	"go/types"
	"math/big"
	"strings"

	"golang.org/x/tools/go/ssa"
)

type bigLit struct{ v *big.Int }

func (e *fnEnc) constTerm(c *ssa.Const) string {
	t := c.Type()
	s := e.sortOf(t)
	if c.Value == nil {
		// zero value / nil
		return e.V.ST.zeroValue(s)
	}
	switch s.kind {
	case skBool:
		if constant.BoolVal(c.Value) {
			return "true"
		}
		return "false"
	case skBV:
		if isFloat(t) {
			f, _ := constant.Float64Val(c.Value)
			return e.V.floatConst(f, s.width)
		}
		v := constant.ToInt(c.Value)
		if bi, ok := constant.Val(v).(*big.Int); ok {
			return bvBig(s.width, bi)
		}
		if i64, ok := constant.Int64Val(v); ok {
			return bvLit(s.width, uint64(i64))
		}
		u64, _ := constant.Uint64Val(v)
		return bvLit(s.width, u64)
	case skStr:
		return e.V.strConstName(constant.StringVal(c.Value))
	}
	e.unsupported("constant %s of type %s", c, t)
	return ""
}

func bvBig(w int, v *big.Int) string {
	m := new(big.Int).Lsh(big.NewInt(1), uint(w))
	x := new(big.Int).Mod(v, m)
	if w%4 == 0 {
		return fmt.Sprintf("#x%0*s", w/4, x.Text(16))
	}
	return fmt.Sprintf("(_ bv%s %d)", x.Text(10), w)
}

var floatConsts = map[string]string{}

func (V *Verifier) floatConst(f float64, w int) string {
	k := fmt.Sprintf("fc_%s", sanitize(fmt.Sprintf("%g", f)))
	if _, ok := floatConsts[k]; !ok {
		floatConsts[k] = fmt.Sprintf("(declare-const %s (_ BitVec %d))", k, w)
	}
	return k
}

// ---------------------------------------------------------------------------
// memory access
// ---------------------------------------------------------------------------

func fldAddr(base string, k int) string { return fmt.Sprintf("(fld %s %d)", base, k) }
func idxAddr(base, i string) string    { return fmt.Sprintf("(idx %s %s)", base, i) }

// loadValue reads a value of Go type t at address addr.
func (e *fnEnc) loadValue(st *state, addr string, t types.Type) string {
	s := e.sortOf(t)
	switch u := t.Underlying().(type) {
	case *types.Struct:
		if u.NumFields() == 0 {
			return e.V.ST.zeroValue(s)
		}
		var fs []string
		for i := 0; i < u.NumFields(); i++ {
			fs = append(fs, e.loadValue(st, fldAddr(addr, i), u.Field(i).Type()))
		}
		return "(mk_" + s.name + " " + strings.Join(fs, " ") + ")"
	case *types.Array:
		if n, ok := isByteArrayBV(t); ok {
			h := e.heap(st, "bv8", sortBV8)
			if n == 1 {
				return e.selectFwd(h, idxAddr(addr, bvLit(64, 0)))
			}
			var bs []string
			for i := 0; i < n; i++ {
				bs = append(bs, e.selectFwd(h, idxAddr(addr, bvLit(64, uint64(i)))))
			}
			return "(concat " + strings.Join(bs, " ") + ")"
		}
		if u.Len() == 0 {
			return e.V.ST.zeroValue(s)
		}
		if u.Len() <= 32 {
			term := fmt.Sprintf("((as const %s) %s)", s.name, e.V.ST.zeroValue(s.elem))
			for i := int64(0); i < u.Len(); i++ {
				term = fmt.Sprintf("(store %s %s %s)", term, bvLit(64, uint64(i)), e.loadValue(st, idxAddr(addr, bvLit(64, uint64(i))), u.Elem()))
			}
			return term
		}
		// large array loaded as a value: an uninterpreted function of the heaps its cells
		// live in and of the address (the same heap and address give the same value)
		return e.bigLoad(st, addr, t)
	}
	key := s.heapKey()
	if key == "" {
		e.unsupported("load of type %s", t)
	}
	return e.selectFwd(e.heap(st, key, s), addr)
}

// leafHeaps collects the heaps that hold the cells of a value of type t, and the nesting
// depth of those cells below the value's own address.
func (e *fnEnc) leafHeaps(t types.Type, acc map[string]*Sort) int {
	switch u := t.Underlying().(type) {
	case *types.Struct:
		d := 0
		for i := 0; i < u.NumFields(); i++ {
			if k := e.leafHeaps(u.Field(i).Type(), acc); k > d {
				d = k
			}
		}
		return d + 1
	case *types.Array:
		if _, ok := isByteArrayBV(t); ok {
			acc["bv8"] = sortBV8
			return 1
		}
		if u.Len() == 0 {
			return 0
		}
		return e.leafHeaps(u.Elem(), acc) + 1
	}
	s := e.sortOf(t)
	if k := s.heapKey(); k != "" {
		acc[k] = s
	}
	return 0
}

func (e *fnEnc) bigLoad(st *state, addr string, t types.Type) string {
	s := e.sortOf(t)
	acc := map[string]*Sort{}
	e.leafHeaps(t, acc)
	var keys []string
	for k := range acc {
		keys = append(keys, k)
	}
	sort.Strings(keys)
	fname := "bigload_" + sanitize(s.name) + "_" + strings.Join(keys, "_")
	var doms, args []string
	for _, k := range keys {
		doms = append(doms, "(Array Ref "+acc[k].name+")")
		args = append(args, e.heap(st, k, acc[k]))
	}
	doms = append(doms, "Ref")
	args = append(args, addr)
	if !e.lazySet[fname] {
		e.lazySet[fname] = true
		e.lazy = append(e.lazy, fmt.Sprintf("(declare-fun %s (%s) %s)", fname, strings.Join(doms, " "), s.name))
	}
	return app(fname, args...)
}

// bigHavoc: the cells of a large array at addr become unknown.
func (e *fnEnc) bigHavoc(st *state, addr string, t types.Type) {
	acc := map[string]*Sort{}
	if d := e.leafHeaps(t, acc); d > 4 {
		e.unsupported("havoc of large array %s (cells nested %d deep)", t, d)
	}
	var keys []string
	for k := range acc {
		keys = append(keys, k)
	}
	sort.Strings(keys)
	for _, k := range keys {
		old := e.heap(st, k, acc[k])
		nh := e.declare("Hbig_"+k, &Sort{name: "(Array Ref " + acc[k].name + ")"})
		e.hasQuant = true
		e.emit(fmt.Sprintf("(assert (forall ((a Ref)) (! (=> (not (under %s a)) (= (select %s a) (select %s a))) :pattern ((select %s a)))))", addr, nh, old, nh))
		st.heap[k] = nh
	}
}

// bigStore writes a large array value: the cells below addr become unknown, everything
// else is unchanged, and reading the whole array back gives the value written.
func (e *fnEnc) bigStore(st *state, addr string, t types.Type, val string) {
	acc := map[string]*Sort{}
	if d := e.leafHeaps(t, acc); d > 4 {
		e.unsupported("store of large array value %s (cells nested %d deep)", t, d)
	}
	var keys []string
	for k := range acc {
		keys = append(keys, k)
	}
	sort.Strings(keys)
	for _, k := range keys {
		old := e.heap(st, k, acc[k])
		nh := e.declare("Hbig_"+k, &Sort{name: "(Array Ref " + acc[k].name + ")"})
		e.hasQuant = true
		e.emit(fmt.Sprintf("(assert (forall ((a Ref)) (! (=> (not (under %s a)) (= (select %s a) (select %s a))) :pattern ((select %s a)))))", addr, nh, old, nh))
		st.heap[k] = nh
	}
	e.emit(fmt.Sprintf("(assert (= %s %s))", e.bigLoad(st, addr, t), val))
}

// strOf: the contents of a byte slice in the current memory as a string value. strof is a
// function of the byte heap and the slice; its length and bytes are those of the slice.
// Writes to other allocations do not change it (syntactic frame through the store chain).
func (e *fnEnc) strOf(st *state, x string) string {
	h := e.heap(st, "bv8", sortBV8)
	h = e.skipStoresOutside(h, app("s_base", x))
	r := e.define("str", sortStr, app("strof", h, x))
	e.assume(st, eq(app("strlen", r), app("s_len", x)))
	e.hasQuant = true
	e.assume(st, fmt.Sprintf("(forall ((ci (_ BitVec 64))) (! (=> (bvult ci (s_len %s)) (= (strbyte %s ci) (select %s (idx (s_base %s) (bvadd (s_off %s) ci))))) :pattern ((strbyte %s ci))))", x, r, h, x, x, r))
	// the first 32 positions as ground facts (fixed-width values read out of a string)
	var gs []string
	for i := 0; i < 32; i++ {
		ci := bvLit(64, uint64(i))
		gs = append(gs, implies(app("bvult", ci, app("s_len", x)), eq(app("strbyte", r, ci), e.selectFwd(h, idxAddr(app("s_base", x), bvadd(app("s_off", x), ci))))))
	}
	e.assume(st, and(gs...))
	return r
}

// skipStoresOutside walks back over stores whose address is provably in another allocation
// than base (both are distinct allocation names, or the written object was allocated after
// base was declared).
func (e *fnEnc) skipStoresOutside(h, base string) string {
	base = foldTerm(base)
	for i := 0; i < 10000; i++ {
		rec, ok := e.storeInfo[h]
		if !ok {
			return h
		}
		if !e.distinctRoots(rec.addr, base) {
			return h
		}
		h = rec.prev
	}
	return h
}

type storeRec struct{ prev, addr, val string }

// selectFwd reads a cell, resolving read-over-write syntactically where the written and
// the read address are identical or provably distinct (a sound simplification of
// select/store terms that keeps the queries small).
func (e *fnEnc) selectFwd(heapName, addr string) string {
	return e.selectFwdD(heapName, addr, 0)
}

func (e *fnEnc) selectFwdD(heapName, addr string, mdepth int) string {
	addr = foldTerm(addr)
	h := heapName
	for depth := 0; depth < 400; depth++ {
		si, ok := e.storeInfo[h]
		if !ok {
			// a two-way merge of memories: the read is the merge of the reads
			if mi, isMerge := e.mergeInfo[h]; isMerge && mdepth < 6 {
				var rs []string
				same := true
				total := 0
				for _, mh := range mi.heaps {
					r := e.selectFwdD(mh, addr, mdepth+1)
					if len(rs) > 0 && r != rs[0] {
						same = false
					}
					total += len(r)
					rs = append(rs, r)
				}
				if same {
					return rs[0]
				}
				if total < 600 {
					t := rs[len(rs)-1]
					for i := len(rs) - 2; i >= 0; i-- {
						t = ite(mi.conds[i], rs[i], t)
					}
					return t
				}
			}
			break
		}
		if si.addr == addr {
			return si.val
		}
		if !e.distinctAddrs(si.addr, addr) {
			if os.Getenv("GOCV_DBG_FWD") != "" {
				fmt.Fprintf(os.Stderr, "FWD-STOP %s | %s\n", si.addr, addr)
			}
			break
		}
		h = si.prev
	}
	return fmt.Sprintf("(select %s %s)", h, addr)
}

// distinctAddrs: syntactic proof that two addresses differ: same base with different
// literal index / field number, or bases that are two different allocations of this function.
func (e *fnEnc) distinctAddrs(a, b string) bool {
	fa, err1 := parseSexps(a)
	fb, err2 := parseSexps(b)
	if err1 != nil || err2 != nil || len(fa) != 1 || len(fb) != 1 {
		return false
	}
	return e.distinctSx(fa[0], fb[0])
}

// olderThanAlloc: `name` is a constant that was declared before the allocation `alloc`
// was made: whatever it refers to existed then, so it is not (inside) the fresh object.
func (e *fnEnc) olderThanAlloc(name, alloc string) bool {
	ao, isAlloc := e.allocOrder[alloc]
	do, declared := e.declOrder[name]
	return isAlloc && declared && do < ao
}

func (e *fnEnc) distinctSx(a, b *sx) bool {
	// one address inside a fresh allocation, the other below a reference that was read out of
	// a memory older than that allocation
	{
		ra, rb := a, b
		for ra.list != nil && (ra.head() == "idx" || ra.head() == "fld") {
			ra = ra.list[1]
		}
		for rb.list != nil && (rb.head() == "idx" || rb.head() == "fld") {
			rb = rb.list[1]
		}
		if ra.list == nil && e.allocNames[ra.atom] && (rb.list != nil || e.loadDefs[rb.atom] != "") && e.loadedBeforeAlloc(rb, ra.atom) {
			return true
		}
		if rb.list == nil && e.allocNames[rb.atom] && (ra.list != nil || e.loadDefs[ra.atom] != "") && e.loadedBeforeAlloc(ra, rb.atom) {
			return true
		}
		// addresses below two different objects: two allocations of this function, or an
		// allocation and something that was declared before it was made
		if ra.list == nil && rb.list == nil && ra.atom != rb.atom && (a.list != nil || b.list != nil) {
			if e.allocNames[ra.atom] && e.allocNames[rb.atom] {
				return true
			}
			if e.olderThanAlloc(ra.atom, rb.atom) || e.olderThanAlloc(rb.atom, ra.atom) {
				return true
			}
		}
	}
	if a.list == nil && b.list == nil {
		if a.atom == b.atom {
			return false
		}
		if e.allocNames[a.atom] && e.allocNames[b.atom] {
			return true
		}
		return e.olderThanAlloc(a.atom, b.atom) || e.olderThanAlloc(b.atom, a.atom)
	}
	ha, hb := a.head(), b.head()
	if (ha == "idx" || ha == "fld") && ha == hb && len(a.list) == 3 && len(b.list) == 3 {
		if a.list[1].String() == b.list[1].String() {
			x, y := a.list[2], b.list[2]
			if x.list == nil && y.list == nil && x.atom != y.atom && isLiteralAtom(x.atom) && isLiteralAtom(y.atom) {
				return true
			}
			return false
		}
		return e.distinctSx(a.list[1], b.list[1])
	}
	if (ha == "idx" || ha == "fld") && b.list == nil && e.allocNames[b.atom] {
		// an interior address of X versus the allocation Y itself or its interior
		return e.rootAtomDiffers(a, b.atom)
	}
	if (hb == "idx" || hb == "fld") && a.list == nil && e.allocNames[a.atom] {
		return e.rootAtomDiffers(b, a.atom)
	}
	if (ha == "idx" || ha == "fld") && (hb == "idx" || hb == "fld") && ha != hb {
		if a.list[1].String() == b.list[1].String() {
			return true // a field cell and an element cell of the same base
		}
	}
	if (ha == "idx" || ha == "fld") && (hb == "idx" || hb == "fld") {
		ra, rb := a, b
		for ra.list != nil && (ra.head() == "idx" || ra.head() == "fld") {
			ra = ra.list[1]
		}
		for rb.list != nil && (rb.head() == "idx" || rb.head() == "fld") {
			rb = rb.list[1]
		}
		if ra.list == nil && rb.list == nil && ra.atom != rb.atom {
			if e.allocNames[ra.atom] && e.allocNames[rb.atom] {
				return true
			}
			return e.olderThanAlloc(ra.atom, rb.atom) || e.olderThanAlloc(rb.atom, ra.atom)
		}
		if ra.list != nil && rb.list == nil && e.allocNames[rb.atom] {
			return e.loadedBeforeAlloc(ra, rb.atom)
		}
		if rb.list != nil && ra.list == nil && e.allocNames[ra.atom] {
			return e.loadedBeforeAlloc(rb, ra.atom)
		}
	}
	return false
}

// distinctRoots: the two addresses lie in different allocations (syntactically evident).
func (e *fnEnc) distinctRoots(a, b string) bool {
	fa, err1 := parseSexps(a)
	fb, err2 := parseSexps(b)
	if err1 != nil || err2 != nil || len(fa) != 1 || len(fb) != 1 {
		return false
	}
	ra, rb := fa[0], fb[0]
	for ra.list != nil && (ra.head() == "idx" || ra.head() == "fld") {
		ra = ra.list[1]
	}
	for rb.list != nil && (rb.head() == "idx" || rb.head() == "fld") {
		rb = rb.list[1]
	}
	if ra.list != nil || rb.list != nil || ra.atom == rb.atom {
		return false
	}
	if e.allocNames[ra.atom] && e.allocNames[rb.atom] {
		return true
	}
	return e.olderThanAlloc(ra.atom, rb.atom) || e.olderThanAlloc(rb.atom, ra.atom)
}

func (e *fnEnc) rootAtomDiffers(a *sx, name string) bool {
	for a.list != nil && (a.head() == "idx" || a.head() == "fld") {
		a = a.list[1]
	}
	if a.list != nil {
		return e.loadedBeforeAlloc(a, name)
	}
	return a.atom != name && (e.allocNames[a.atom] || e.olderThanAlloc(a.atom, name))
}

// loadedBeforeAlloc: r is a reference read out of a memory (or the base of a slice read out of
// one) that was created before the allocation `alloc` was made. A memory only holds references
// to objects allocated by the time it came into being, so r is not (inside) the new object.
func (e *fnEnc) loadedBeforeAlloc(r *sx, alloc string) bool {
	ao, isAlloc := e.allocOrder[alloc]
	if !isAlloc {
		return false
	}
	if r.head() == "s_base" && len(r.list) == 2 {
		r = r.list[1]
	}
	if r.list == nil {
		// a name defined as a load
		if d, ok := e.loadDefs[r.atom]; ok {
			if fs, err := parseSexps(d); err == nil && len(fs) == 1 {
				r = fs[0]
			}
		}
	}
	if r.head() != "select" || len(r.list) != 3 || r.list[1].list != nil {
		return false
	}
	h := r.list[1].atom
	if strings.HasPrefix(h, "H_e0_") {
		return true // the memory on function entry
	}
	if !strings.HasPrefix(h, "H") {
		return false
	}
	i := strings.LastIndexByte(h, '_')
	if i < 0 || !isLiteralAtom(h[i+1:]) || strings.HasPrefix(h[i+1:], "#") {
		return false
	}
	n := 0
	fmt.Sscanf(h[i+1:], "%d", &n)
	return n > 0 && n < ao
}

func isLiteralAtom(s string) bool {
	if strings.HasPrefix(s, "#x") || strings.HasPrefix(s, "#b") {
		return true
	}
	for _, c := range s {
		if c < '0' || c > '9' {
			return false
		}
	}
	return s != ""
}

// storeValue writes val (of Go type t) to addr.
func (e *fnEnc) storeValue(st *state, addr string, t types.Type, val string) {
	s := e.sortOf(t)
	switch u := t.Underlying().(type) {
	case *types.Struct:
		for i := 0; i < u.NumFields(); i++ {
			e.storeValue(st, fldAddr(addr, i), u.Field(i).Type(), fmt.Sprintf("(%s_f%d %s)", s.name, i, val))
		}
		return
	case *types.Array:
		if n, ok := isByteArrayBV(t); ok {
			for i := 0; i < n; i++ {
				hi := 8*(n-i) - 1
				b := val
				if n > 1 {
					b = fmt.Sprintf("((_ extract %d %d) %s)", hi, hi-7, val)
				}
				e.storeCell(st, "bv8", sortBV8, idxAddr(addr, bvLit(64, uint64(i))), b)
			}
			return
		}
		if u.Len() == 0 {
			return
		}
		if u.Len() <= 32 {
			for i := int64(0); i < u.Len(); i++ {
				e.storeValue(st, idxAddr(addr, bvLit(64, uint64(i))), u.Elem(), fmt.Sprintf("(select %s %s)", val, bvLit(64, uint64(i))))
			}
			return
		}
		e.bigStore(st, addr, t, val)
		return
	}
	key := s.heapKey()
	if key == "" {
		e.unsupported("store of type %s", t)
	}
	e.storeCell(st, key, s, addr, val)
}

func (e *fnEnc) storeCell(st *state, key string, cell *Sort, addr, val string) {
	addr = foldTerm(addr)
	prev := e.heap(st, key, cell)
	if len(val) > 60 {
		val = e.define("sv", cell, val)
	}
	e.setHeap(st, key, cell, fmt.Sprintf("(store %s %s %s)", prev, addr, val))
	e.storeInfo[st.heap[key]] = storeRec{prev: prev, addr: addr, val: val}
}

func (e *fnEnc) alloc(st *state, hint string) string {
	r := e.define("obj_"+hint, sortRef, fmt.Sprintf("(obj %s)", st.next))
	e.allocNames[r] = true
	e.allocOrder[r] = e.ctr
	st.next = e.define("next", &Sort{name: "Int"}, fmt.Sprintf("(+ %s 1)", st.next))
	return r
}

func (e *fnEnc) isModNone() bool { return e.fc != nil && e.fc.ModNone }

// frameCheck emits the obligation that a write to addr is allowed.
func (e *fnEnc) frameCheck(st *state, addr string, pos token.Pos, what string) {
	if e.fc == nil || !e.fc.ModSet || e.fc.ModAll {
		return
	}
	fresh := fmt.Sprintf("(>= (rootn %s) %s)", addr, e.entry.next)
	allowed := []string{fresh}
	if !e.fc.ModNone {
		env := e.contractEnv(e.entry, e.entry, nil)
		for _, m := range e.fc.Modifies {
			allowed = append(allowed, env.inModifies(m, addr))
		}
	}
	e.oblige(st, "frame", what, pos, or(allowed...))
}

// ---------------------------------------------------------------------------
// instructions
// ---------------------------------------------------------------------------

func (e *fnEnc) setVal(v ssa.Value, term string) {
	s := e.sortOf(v.Type())
	if len(term) > 40 || strings.HasPrefix(term, "(") {
		term = e.define("v_"+v.Name(), s, term)
	}
	e.vals[v] = term
}

func (e *fnEnc) execInstr(b *ssa.BasicBlock, ins ssa.Instruction, st *state) {
	switch v := ins.(type) {
	case *ssa.DebugRef:
		return
	case *ssa.Alloc:
		et := v.Type().Underlying().(*types.Pointer).Elem()
		if localCell(v) {
			if s := e.sortOf(et); s.kind != skStruct && s.kind != skArray && s.kind != skTuple {
				st.locals[v] = e.V.ST.zeroValue(s)
				e.vals[v] = "LOCAL-CELL"
				return
			}
		}
		r := e.alloc(st, v.Name())
		e.zeroInit(st, r, et)
		e.vals[v] = r
	case *ssa.BinOp:
		e.setVal(v, e.binop(st, v, v.Op, v.X, v.Y))
	case *ssa.UnOp:
		e.unop(st, v)
	case *ssa.Convert:
		e.setVal(v, e.convert(st, v.X, v.Type(), v))
	case *ssa.ChangeType:
		e.vals[v] = e.val(v.X)
	case *ssa.ChangeInterface:
		e.vals[v] = e.val(v.X)
	case *ssa.MakeInterface:
		e.makeInterface(st, v)
	case *ssa.TypeAssert:
		e.typeAssert(st, v)
	case *ssa.Extract:
		t, ok := e.tuples[v.Tuple]
		if !ok {
			e.unsupported("extract from unknown tuple %s", v.Tuple.Name())
		}
		e.vals[v] = t[v.Index]
	case *ssa.FieldAddr:
		base := e.val(v.X)
		e.oblige(st, "nil", "", v.Pos(), not(eq(base, "null")))
		e.setVal(v, fldAddr(base, v.Field))
	case *ssa.Field:
		s := e.sortOf(v.X.Type())
		e.setVal(v, fmt.Sprintf("(%s_f%d %s)", s.name, v.Field, e.val(v.X)))
	case *ssa.IndexAddr:
		e.indexAddr(st, v)
	case *ssa.Index:
		e.index(st, v)
	case *ssa.Slice:
		e.sliceOp(st, v)
	case *ssa.Store:
		if a, ok := v.Addr.(*ssa.Alloc); ok {
			if _, isLocal := st.locals[a]; isLocal {
				val := e.val(v.Val)
				if len(val) > 60 {
					val = e.define("locv", e.sortOf(v.Val.Type()), val)
				}
				st.locals[a] = val
				return
			}
		}
		addr := e.val(v.Addr)
		e.oblige(st, "nil", "store", v.Pos(), not(eq(addr, "null")))
		e.frameCheck(st, addr, v.Pos(), "store")
		e.storeValue(st, addr, v.Val.Type(), e.val(v.Val))
	case *ssa.MakeSlice:
		e.makeSlice(st, v)
	case *ssa.MakeMap:
		r := e.alloc(st, "map")
		e.mapInit(st, r, v.Type())
		e.vals[v] = r
	case *ssa.MakeChan:
		e.vals[v] = e.alloc(st, "chan")
	case *ssa.MakeClosure:
		r := e.alloc(st, "closure")
		e.closures[v] = v
		e.vals[v] = r
	case *ssa.Lookup:
		e.lookup(st, v)
	case *ssa.MapUpdate:
		e.mapUpdate(st, v)
	case *ssa.Range:
		e.vals[v] = e.declare("rangeiter", sortRef)
		e.rangeSrc[v] = v.X
	case *ssa.Next:
		e.next(st, v)
	case *ssa.Select:
		e.selectInstr(st, v)
	case *ssa.Send:
		// abstracted: only the ghost log of sent pointers
		if e.sortOf(v.X.Type()).kind == skRef {
			e.logSend(st, e.val(v.Chan), e.val(v.X), "true")
		}
	case *ssa.SliceToArrayPointer:
		sl := e.val(v.X)
		n := v.Type().Underlying().(*types.Pointer).Elem().Underlying().(*types.Array).Len()
		e.oblige(st, "conv-len", "", v.Pos(), app("bvuge", app("s_len", sl), bvLit(64, uint64(n))))
		// The array is the window of the backing store that starts at the slice's offset.
		// The pointer is tracked statically (element i lives at idx(base, off+i)); it may be
		// dereferenced, indexed and re-sliced, but not stored or passed on.
		e.winOf[v] = sl
		e.vals[v] = "WINDOW-POINTER-ESCAPED"

	case *ssa.Call:
		var preCall *state
		if e.fc != nil && len(e.fc.AfterCall) > 0 {
			preCall = st.clone()
		}
		e.call(st, v, v.Common(), v)
		e.afterCall(st, v, preCall)
	case *ssa.Go:
		e.goStmt(st, v)
	case *ssa.Defer:
		e.defers = append(e.defers, v)
		e.deferSt[v] = e.define("defer_active", sortBool, st.reach)
	case *ssa.RunDefers:
		e.runDefers(st, v)
	case *ssa.Panic:
		e.panicInstr(st, v)
	case *ssa.Return:
		e.ret(st, v)
	case *ssa.If, *ssa.Jump:
		return
	case *ssa.MultiConvert:
		e.setVal(v, e.convert(st, v.X, v.Type(), v))
	default:
		e.unsupported("instruction %T (%s)", ins, ins)
	}
}

func (e *fnEnc) zeroInit(st *state, addr string, t types.Type) {
	if a, ok := t.Underlying().(*types.Array); ok {
		if _, isBV := isByteArrayBV(t); !isBV && a.Len() > 32 || a.Len() > 64 {
			// large arrays: cells of a fresh object are unconstrained, which includes zero
			e.zeroRegion(st, addr, a)
			return
		}
		if _, isBV := isByteArrayBV(t); !isBV {
			for i := int64(0); i < a.Len(); i++ {
				e.zeroInit(st, idxAddr(addr, bvLit(64, uint64(i))), a.Elem())
			}
			return
		}
	}
	if s, ok := t.Underlying().(*types.Struct); ok {
		for i := 0; i < s.NumFields(); i++ {
			e.zeroInit(st, fldAddr(addr, i), s.Field(i).Type())
		}
		return
	}
	e.storeValue(st, addr, t, e.V.ST.zeroValue(e.sortOf(t)))
}

// zeroRegion states that a freshly allocated large array is zero (a quantified fact
// about a fresh object; cells of unallocated objects are otherwise unconstrained).
func (e *fnEnc) zeroRegion(st *state, addr string, a *types.Array) {
	es := e.sortOf(a.Elem())
	key := es.heapKey()
	if key == "" {
		return
	}
	h := e.heap(st, key, es)
	e.hasQuant = true
	e.assume(st, fmt.Sprintf("(forall ((zi (_ BitVec 64))) (! (=> (bvult zi %s) (= (select %s (idx %s zi)) %s)) :pattern ((select %s (idx %s zi)))))",
		bvLit(64, uint64(a.Len())), h, addr, e.V.ST.zeroValue(es), h, addr))
}

func (e *fnEnc) subArrayRef(st *state, sl string) string {
	// A pointer to the array that starts at element off of the backing store. With the
	// structured address scheme element i of that array must be idx(base, off+i); we
	// represent the array pointer as a "window" reference: fld(idx(base, off), -1) is not
	// compatible with idx arithmetic, so only off == 0 windows are exact.
	e.oblige(st, "model", "slice-to-array-window", token.NoPos, eq(app("s_off", sl), bvLit(64, 0)))
	return app("s_base", sl)
}

func (e *fnEnc) binop(st *state, at ssa.Value, op token.Token, X, Y ssa.Value) string {
	x, y := e.val(X), e.val(Y)
	t := X.Type()
	s := e.sortOf(t)
	switch op {
	case token.EQL, token.NEQ:
		var r string
		switch s.kind {
		case skSlice:
			// only comparison with nil is legal
			other := x
			if isNilConst(X) {
				other = y
			}
			r = eq(app("s_base", other), "null")
		case skIface:
			if isNilConst(X) || isNilConst(Y) {
				r = eq(x, y)
			} else {
				// dynamic values may be boxed: equal terms are equal, different tags are
				// different, otherwise unknown (sound)
				u := e.declare("ifeq", sortBool)
				e.emit(fmt.Sprintf("(assert (=> (= %s %s) %s))", x, y, u))
				e.emit(fmt.Sprintf("(assert (=> (not (= (i_tag %s) (i_tag %s))) (not %s)))", x, y, u))
				if e.bothPointerShapedIfaces(X, Y) {
					e.emit(fmt.Sprintf("(assert (= %s (= %s %s)))", u, x, y))
				}
				r = u
			}
		default:
			if isFloat(t) {
				r = app("f_eq", x, y)
				e.V.needFloat = true
			} else {
				r = eq(x, y)
			}
		}
		if op == token.NEQ {
			return not(r)
		}
		return r
	}
	if s.kind == skStr {
		switch op {
		case token.ADD:
			r := e.declare("strcat", sortStr)
			e.emit(fmt.Sprintf("(assert (= (strlen %s) (bvadd (strlen %s) (strlen %s))))", r, x, y))
			return r
		case token.LSS, token.LEQ, token.GTR, token.GEQ:
			return e.declare("strcmp", sortBool)
		}
	}
	if isFloat(t) {
		e.V.needFloat = true
		switch op {
		case token.ADD:
			return app("f_add", x, y)
		case token.SUB:
			return app("f_sub", x, y)
		case token.MUL:
			return app("f_mul", x, y)
		case token.QUO:
			return app("f_div", x, y)
		case token.LSS:
			return app("f_lt", x, y)
		case token.LEQ:
			return app("f_le", x, y)
		case token.GTR:
			return app("f_lt", y, x)
		case token.GEQ:
			return app("f_le", y, x)
		}
	}
	if s.kind == skBool {
		switch op {
		case token.AND, token.LAND:
			return and(x, y)
		case token.OR, token.LOR:
			return or(x, y)
		}
	}
	if s.kind != skBV {
		e.unsupported("binop %s on %s", op, t)
	}
	signed := isSigned(t)
	w := s.width
	switch op {
	case token.ADD:
		return app("bvadd", x, y)
	case token.SUB:
		return app("bvsub", x, y)
	case token.MUL:
		return app("bvmul", x, y)
	case token.QUO, token.REM:
		pos := token.NoPos
		if at != nil {
			pos = at.Pos()
		}
		e.oblige(st, "div0", "", pos, not(eq(y, bvLit(w, 0))))
		if signed {
			if op == token.QUO {
				return app("bvsdiv", x, y)
			}
			return app("bvsrem", x, y)
		}
		if op == token.QUO {
			return app("bvudiv", x, y)
		}
		return app("bvurem", x, y)
	case token.AND:
		return app("bvand", x, y)
	case token.OR:
		return app("bvor", x, y)
	case token.XOR:
		return app("bvxor", x, y)
	case token.AND_NOT:
		return app("bvand", x, app("bvnot", y))
	case token.SHL, token.SHR:
		ys := e.sortOf(Y.Type())
		if isSigned(Y.Type()) {
			if _, isC := Y.(*ssa.Const); !isC {
				pos := token.NoPos
				if at != nil {
					pos = at.Pos()
				}
				e.oblige(st, "shift", "", pos, app("bvsge", y, bvLit(ys.width, 0)))
			}
		}
		cnt := y
		if ys.width < w {
			cnt = fmt.Sprintf("((_ zero_extend %d) %s)", w-ys.width, y)
		} else if ys.width > w {
			cnt = ite(app("bvuge", y, bvLit(ys.width, uint64(w))), bvLit(w, uint64(w)), fmt.Sprintf("((_ extract %d 0) %s)", w-1, y))
		}
		if op == token.SHL {
			return app("bvshl", x, cnt)
		}
		if signed {
			return app("bvashr", x, cnt)
		}
		return app("bvlshr", x, cnt)
	case token.LSS:
		if signed {
			return app("bvslt", x, y)
		}
		return app("bvult", x, y)
	case token.LEQ:
		if signed {
			return app("bvsle", x, y)
		}
		return app("bvule", x, y)
	case token.GTR:
		if signed {
			return app("bvsgt", x, y)
		}
		return app("bvugt", x, y)
	case token.GEQ:
		if signed {
			return app("bvsge", x, y)
		}
		return app("bvuge", x, y)
	}
	e.unsupported("binop %s", op)
	return ""
}

func (e *fnEnc) bothPointerShapedIfaces(X, Y ssa.Value) bool { return false }

func isNilConst(v ssa.Value) bool {
	c, ok := v.(*ssa.Const)
	return ok && c.Value == nil
}

func (e *fnEnc) unop(st *state, v *ssa.UnOp) {
	x := ""
	_, isWin := e.winOf[v.X]
	isLoc := false
	if a, ok := v.X.(*ssa.Alloc); ok {
		_, isLoc = st.locals[a]
	}
	if !isWin && !isLoc {
		x = e.val(v.X)
	}
	switch v.Op {
	case token.MUL: // load
		if a, ok := v.X.(*ssa.Alloc); ok {
			if lv, isLocal := st.locals[a]; isLocal {
				e.vals[v] = lv
				return
			}
		}
		if cv, ok := e.constCell(v.X); ok {
			e.vals[v] = cv
			return
		}
		if sl, isWin := e.winOf[v.X]; isWin {
			e.setVal(v, e.loadWindow(st, sl, v.Type()))
			return
		}
		e.oblige(st, "nil", "", v.Pos(), not(eq(x, "null")))
		t := v.Type()
		val := e.loadValue(st, x, t)
		e.setVal(v, val)
		e.assumeLoadedWF(st, e.vals[v], t)
	case token.NOT:
		e.setVal(v, not(x))
	case token.SUB:
		if isFloat(v.Type()) {
			e.V.needFloat = true
			e.setVal(v, app("f_neg", x))
		} else {
			e.setVal(v, app("bvneg", x))
		}
	case token.XOR:
		e.setVal(v, app("bvnot", x))
	case token.ARROW:
		// channel receive: unknown value
		if v.CommaOk {
			et := v.Type().(*types.Tuple).At(0).Type()
			val := e.declareInput(st, "recv", et)
			ok := e.declare("recvok", sortBool)
			e.tuples[v] = []string{val, ok}
		} else {
			e.vals[v] = e.declareInput(st, "recv", v.Type())
		}
	default:
		e.unsupported("unop %s", v.Op)
	}
}

func (e *fnEnc) assumeLoadedWF(st *state, term string, t types.Type) {
	switch t.Underlying().(type) {
	case *types.Slice, *types.Pointer, *types.Map, *types.Chan, *types.Signature, *types.Interface, *types.Struct, *types.Basic:
		e.assumeWF(st, term, t)
	}
}

func (e *fnEnc) convert(st *state, X ssa.Value, to types.Type, at ssa.Value) string {
	x := e.val(X)
	from := X.Type()
	fs, ts := e.sortOf(from), e.sortOf(to)
	switch {
	case isInteger(from) && isInteger(to):
		return convInt(x, fs.width, ts.width, isSigned(from))
	case isInteger(from) && isFloat(to):
		e.V.needFloat = true
		if isSigned(from) {
			return app(fmt.Sprintf("i2f_%d_%d", fs.width, ts.width), x)
		}
		return app(fmt.Sprintf("u2f_%d_%d", fs.width, ts.width), x)
	case isFloat(from) && isInteger(to):
		e.V.needFloat = true
		return app(fmt.Sprintf("f2i_%d_%d", fs.width, ts.width), x)
	case isFloat(from) && isFloat(to):
		if fs.width == ts.width {
			return x
		}
		e.V.needFloat = true
		return app(fmt.Sprintf("f2f_%d_%d", fs.width, ts.width), x)
	case fs.kind == skSlice && ts.kind == skStr:
		// string(bytes): the contents of the slice in the current memory, as a value
		if el, ok := from.Underlying().(*types.Slice).Elem().Underlying().(*types.Basic); ok && el.Kind() == types.Uint8 {
			return e.strOf(st, x)
		}
		r := e.declare("str", sortStr)
		e.assume(st, eq(app("strlen", r), app("s_len", x)))
		return r
	case fs.kind == skStr && ts.kind == skSlice:
		base := e.alloc(st, "strbytes")
		r := fmt.Sprintf("(mkslice %s #x0000000000000000 (strlen %s) (strlen %s))", base, x, x)
		if el, ok := to.Underlying().(*types.Slice).Elem().Underlying().(*types.Basic); ok && el.Kind() == types.Uint8 {
			h := e.heap(st, "bv8", sortBV8)
			e.hasQuant = true
			e.assume(st, fmt.Sprintf("(forall ((ci (_ BitVec 64))) (! (=> (bvult ci (strlen %s)) (= (select %s (idx %s ci)) (strbyte %s ci))) :pattern ((select %s (idx %s ci)))))", x, h, base, x, h, base))
			// the new slice holds exactly the string (strof is the contents-as-a-value function)
			e.assume(st, eq(app("strof", h, r), x))
		}
		return r
	case isInteger(from) && ts.kind == skStr:
		r := e.declare("runestr", sortStr)
		e.assume(st, app("bvule", app("strlen", r), bvLit(64, 4)))
		return r
	case fs.kind == skRef && ts.kind == skRef:
		return x // unsafe.Pointer conversions
	case fs.kind == ts.kind && fs.name == ts.name:
		return x
	}
	e.unsupported("conversion %s -> %s", from, to)
	return ""
}

func convInt(x string, fw, tw int, signedFrom bool) string {
	switch {
	case fw == tw:
		return x
	case fw > tw:
		return fmt.Sprintf("((_ extract %d 0) %s)", tw-1, x)
	case signedFrom:
		return fmt.Sprintf("((_ sign_extend %d) %s)", tw-fw, x)
	default:
		return fmt.Sprintf("((_ zero_extend %d) %s)", tw-fw, x)
	}
}

func (e *fnEnc) makeInterface(st *state, v *ssa.MakeInterface) {
	xt := v.X.Type()
	tag := e.V.ST.typeID(xt)
	x := e.val(v.X)
	var data string
	if isPointerShaped(xt) {
		data = x
	} else {
		data = e.alloc(st, "box")
		e.storeBox(st, data, xt, x)
	}
	e.setVal(v, fmt.Sprintf("(mkiface %d %s)", tag, data))
}

func (e *fnEnc) storeBox(st *state, addr string, t types.Type, val string) {
	defer func() {
		if r := recover(); r != nil {
			if _, ok := r.(unsupported); ok {
				return // box contents unknown
			}
			panic(r)
		}
	}()
	e.storeValue(st, addr, t, val)
}

func (e *fnEnc) typeAssert(st *state, v *ssa.TypeAssert) {
	x := e.val(v.X)
	at := v.AssertedType
	var okc string
	var val string
	if _, isIface := at.Underlying().(*types.Interface); isIface {
		// interface-to-interface: succeeds iff dynamic type implements it; decided
		// statically when the set of tags is known, else unknown-but-non-nil
		u := e.declare("implements", sortBool)
		e.emit(fmt.Sprintf("(assert (=> %s (not (= %s nil_iface))))", u, x))
		okc = u
		val = x
	} else {
		tag := e.V.ST.typeID(at)
		okc = fmt.Sprintf("(= (i_tag %s) %d)", x, tag)
		if isPointerShaped(at) {
			val = app("i_val", x)
		} else {
			val = e.loadBox(st, app("i_val", x), at)
		}
	}
	s := e.sortOf(at)
	if v.CommaOk {
		okn := e.define("taok", sortBool, okc)
		valn := e.define("taval", s, ite(okn, val, e.V.ST.zeroValue(s)))
		e.assumeLoadedWF(st, valn, at)
		e.tuples[v] = []string{valn, okn}
		return
	}
	e.oblige(st, "assert-type", "", v.Pos(), okc)
	e.setVal(v, val)
	e.assumeLoadedWF(st, e.vals[v], at)
}

func (e *fnEnc) loadBox(st *state, addr string, t types.Type) (res string) {
	defer func() {
		if r := recover(); r != nil {
			if _, ok := r.(unsupported); ok {
				res = e.declare("unboxed", e.sortOf(t))
				return
			}
			panic(r)
		}
	}()
	return e.loadValue(st, addr, t)
}

func (e *fnEnc) indexAddr(st *state, v *ssa.IndexAddr) {
	if sl, isWin := e.winOf[v.X]; isWin {
		i := e.toIndex(v.Index)
		arr := v.X.Type().Underlying().(*types.Pointer).Elem().Underlying().(*types.Array)
		e.oblige(st, "bounds", "", v.Pos(), app("bvult", i, bvLit(64, uint64(arr.Len()))))
		e.setVal(v, idxAddr(app("s_base", sl), bvadd(app("s_off", sl), i)))
		return
	}
	x := e.val(v.X)
	i := e.toIndex(v.Index)
	switch u := v.X.Type().Underlying().(type) {
	case *types.Slice:
		e.oblige(st, "bounds", "", v.Pos(), app("bvult", i, app("s_len", x)))
		e.setVal(v, idxAddr(app("s_base", x), bvadd(app("s_off", x), i)))
	case *types.Pointer:
		arr := u.Elem().Underlying().(*types.Array)
		e.oblige(st, "nil", "", v.Pos(), not(eq(x, "null")))
		e.oblige(st, "bounds", "", v.Pos(), app("bvult", i, bvLit(64, uint64(arr.Len()))))
		e.setVal(v, idxAddr(x, i))
	default:
		e.unsupported("IndexAddr on %s", v.X.Type())
	}
}

// toIndex converts an integer SSA value to a 64-bit index (sign- or zero-extended).
func (e *fnEnc) toIndex(v ssa.Value) string {
	s := e.sortOf(v.Type())
	return convInt(e.val(v), s.width, 64, isSigned(v.Type()))
}

func (e *fnEnc) index(st *state, v *ssa.Index) {
	x := e.val(v.X)
	i := e.toIndex(v.Index)
	switch u := v.X.Type().Underlying().(type) {
	case *types.Array:
		e.oblige(st, "bounds", "", v.Pos(), app("bvult", i, bvLit(64, uint64(u.Len()))))
		if n, ok := isByteArrayBV(v.X.Type()); ok {
			e.setVal(v, byteOfBV(x, n, i))
		} else if u.Len() == 0 {
			e.setVal(v, e.V.ST.zeroValue(e.sortOf(u.Elem())))
		} else {
			e.setVal(v, fmt.Sprintf("(select %s %s)", x, i))
		}
	case *types.Basic: // string
		e.oblige(st, "bounds", "", v.Pos(), app("bvult", i, app("strlen", x)))
		e.setVal(v, app("strbyte", x, i))
	default:
		e.unsupported("Index on %s", v.X.Type())
	}
}

// byteOfBV selects byte i (0 = most significant) of a BV(8n) value with a symbolic index.
func byteOfBV(x string, n int, i string) string {
	if n == 1 {
		return x
	}
	if strings.HasPrefix(i, "#x") {
		var k uint64
		fmt.Sscanf(i[2:], "%x", &k)
		if int(k) < n {
			hi := 8*(n-int(k)) - 1
			return fmt.Sprintf("((_ extract %d %d) %s)", hi, hi-7, x)
		}
	}
	w := 8 * n
	// shift right by 8*(n-1-i) and take the low byte
	sh := fmt.Sprintf("(bvmul %s (bvsub %s %s))", bvLit(w, 8), bvLit(w, uint64(n-1)), convInt(i, 64, w, false))
	return fmt.Sprintf("((_ extract 7 0) (bvlshr %s %s))", x, sh)
}

func (e *fnEnc) sliceOp(st *state, v *ssa.Slice) {
	if sl, isWin := e.winOf[v.X]; isWin {
		arr := v.X.Type().Underlying().(*types.Pointer).Elem().Underlying().(*types.Array)
		n := bvLit(64, uint64(arr.Len()))
		lo, hi := bvLit(64, 0), n
		if v.Low != nil {
			lo = e.toIndex(v.Low)
		}
		if v.High != nil {
			hi = e.toIndex(v.High)
		}
		e.oblige(st, "slice", "", v.Pos(), and(app("bvule", lo, hi), app("bvule", hi, n)))
		e.setVal(v, fmt.Sprintf("(mkslice (s_base %s) %s (bvsub %s %s) (bvsub %s %s))", sl, bvadd(app("s_off", sl), lo), hi, lo, n, lo))
		return
	}
	x := e.val(v.X)
	var lo, hi, max string
	if v.Low != nil {
		lo = e.toIndex(v.Low)
	} else {
		lo = bvLit(64, 0)
	}
	switch u := v.X.Type().Underlying().(type) {
	case *types.Slice:
		ln, cp := app("s_len", x), app("s_cap", x)
		if v.High != nil {
			hi = e.toIndex(v.High)
		} else {
			hi = ln
		}
		if v.Max != nil {
			max = e.toIndex(v.Max)
		} else {
			max = cp
		}
		e.oblige(st, "slice", "", v.Pos(), and(app("bvule", lo, hi), app("bvule", hi, max), app("bvule", max, cp)))
		e.setVal(v, fmt.Sprintf("(mkslice (s_base %s) %s (bvsub %s %s) (bvsub %s %s))", x, bvadd(app("s_off", x), lo), hi, lo, max, lo))
	case *types.Basic: // string
		ln := app("strlen", x)
		if v.High != nil {
			hi = e.toIndex(v.High)
		} else {
			hi = ln
		}
		e.oblige(st, "slice", "", v.Pos(), and(app("bvule", lo, hi), app("bvule", hi, ln)))
		r := e.declare("substr", sortStr)
		e.assume(st, eq(app("strlen", r), app("bvsub", hi, lo)))
		e.hasQuant = true
		e.assume(st, fmt.Sprintf("(forall ((ci (_ BitVec 64))) (! (=> (bvult ci (strlen %s)) (= (strbyte %s ci) (strbyte %s (bvadd %s ci)))) :pattern ((strbyte %s ci))))", r, r, x, lo, r))
		e.vals[v] = r
	case *types.Pointer:
		arr := u.Elem().Underlying().(*types.Array)
		n := bvLit(64, uint64(arr.Len()))
		if v.High != nil {
			hi = e.toIndex(v.High)
		} else {
			hi = n
		}
		if v.Max != nil {
			max = e.toIndex(v.Max)
		} else {
			max = n
		}
		e.oblige(st, "nil", "", v.Pos(), not(eq(x, "null")))
		e.oblige(st, "slice", "", v.Pos(), and(app("bvule", lo, hi), app("bvule", hi, max), app("bvule", max, n)))
		e.setVal(v, fmt.Sprintf("(mkslice %s %s (bvsub %s %s) (bvsub %s %s))", x, lo, hi, lo, max, lo))
	default:
		e.unsupported("Slice on %s", v.X.Type())
	}
}

func (e *fnEnc) makeSlice(st *state, v *ssa.MakeSlice) {
	ln := e.toIndex(v.Len)
	cp := e.toIndex(v.Cap)
	et := v.Type().Underlying().(*types.Slice).Elem()
	esz := e.V.ST.sizes.Sizeof(et)
	if esz < 1 {
		esz = 1
	}
	limit := uint64(1<<47) / uint64(esz)
	e.oblige(st, "make-len", "", v.Pos(), and(app("bvule", ln, cp), app("bvule", cp, bvLit(64, limit))))
	base := e.alloc(st, "mk")
	e.setVal(v, fmt.Sprintf("(mkslice %s #x0000000000000000 %s %s)", base, ln, cp))
	// zero contents
	es := e.sortOf(et)
	if key := es.heapKey(); key != "" {
		h := e.heap(st, key, es)
		e.hasQuant = true
		e.assume(st, fmt.Sprintf("(forall ((zi (_ BitVec 64))) (! (= (select %s (idx %s zi)) %s) :pattern ((select %s (idx %s zi)))))", h, base, e.V.ST.zeroValue(es), h, base))
	}
}

// afterCall: intermediate assertions of the contract (`after-call <callee> [label] expr`): proved
// right after every call whose callee name contains <callee>, with the function's source
// variables in scope, and available from then on. They only structure the proof.
func (e *fnEnc) afterCall(st *state, v *ssa.Call, preCall *state) {
	if e.fc == nil || len(e.fc.AfterCall) == 0 || st.reach == "false" {
		return
	}
	if preCall == nil {
		preCall = e.entry
	}
	key := e.calleeKey(v.Common())
	if bi, isBuiltin := v.Common().Value.(*ssa.Builtin); isBuiltin {
		// builtins are named "builtin:<name>:<type of the first argument>", e.g.
		// builtin:append:[]*github.com/ethereum/go-ethereum/p2p/enode.Node
		key = "builtin:" + bi.Name()
		if len(v.Common().Args) > 0 {
			key += ":" + v.Common().Args[0].Type().String()
		}
	}
	for i, ac := range e.fc.AfterCall {
		if !strings.Contains(key, ac.Callee) {
			continue
		}
		ac.Used = true
		// old(...) in an after-call clause: the state right before the call
		env := e.contractEnv(st, preCall, nil)
		// inside a loop body athead(x) is the value of the loop variable x at the head of the
		// current iteration
		var inner *loopInfo
		for _, l := range e.loopList {
			if l.blocks[v.Block()] && (inner == nil || len(l.blocks) < len(inner.blocks)) {
				inner = l
			}
		}
		if inner == nil {
			// a block that leaves the loop (if ... { ...; break }): still inside the iteration
			// of the innermost loop whose head dominates it
			for _, l := range e.loopList {
				if l.head.Dominates(v.Block()) && (inner == nil || inner.head.Dominates(l.head)) {
					inner = l
				}
			}
		}
		env.iterLoop = inner
		t := env.evalBool(ac.Expr)
		if strings.HasPrefix(ac.Label, "assumed:") {
			// a definitional step of a ghost function, assumed at this program point (listed
			// in the evidence, never an obligation)
			e.V.Assumed[fmt.Sprintf("after-call %s in %s: [%s] %s", ac.Callee, funcKey(e.fn), ac.Label, ac.Src)] = true
			e.assume(st, t)
			continue
		}
		o := e.oblige(st, "assert", fmt.Sprintf("after:%s[%s]", ac.Callee, labelOr(ac.Label, i)), v.Pos(), t)
		o.Quantified = strings.Contains(t, "forall") || strings.Contains(t, "exists")
		o.Src = ac.Src
		e.assume(st, t)
	}
}

func (e *fnEnc) panicInstr(st *state, v *ssa.Panic) {
	e.oblige(st, "panic", "", v.Pos(), "false")
	st.reach = "false"
}

func (e *fnEnc) ret(st *state, v *ssa.Return) {
	var res []tval
	for i, r := range v.Results {
		_ = i
		res = append(res, tval{term: e.val(r), typ: r.Type()})
	}
	if e.onReturn != nil {
		e.onReturn(st, res)
		return
	}
	// vacuity guard: the return must be reachable under the assumptions made so far
	if st.reach != "false" {
		e.anchors["cover:return"]++
		co := &Obligation{Name: fmt.Sprintf("%s#cover:return@%d", funcKey(e.fn), e.anchors["cover:return"]), Kind: "cover", Func: funcKey(e.fn),
			Goal: st.reach, CtxLen: len(e.ctx), enc: e, Cover: true}
		// a return whose error result is the literal nil is a success return: if the contracts
		// assumed along the way make every success return of a function dead, what is proved
		// about the function is vacuous
		if n := len(v.Results); n > 0 {
			if c, isConst := v.Results[n-1].(*ssa.Const); isConst && c.Value == nil && types.Identical(c.Type(), types.Universe.Lookup("error").Type()) {
				co.Success = true
			}
		}
		e.covers = append(e.covers, co)
	}
	if e.fc == nil {
		return
	}
	env := e.contractEnv(st, e.entry, nil)
	env.setResults(e.fn, res)
	if e.fn.Parent() != nil && len(e.fc.Requires) > 0 {
		// a function literal used as a callback may be invoked again with other arguments:
		// whatever its precondition says for ANY arguments before this invocation must
		// still hold afterwards (stability of the precondition under its own effect)
		pre := e.contractEnv(e.entry, e.entry, nil)
		post := e.contractEnv(st, e.entry, nil)
		for _, p := range e.fn.Params {
			n := e.declareInput(st, "anyarg_"+p.Name(), p.Type())
			pre.names[p.Name()] = tval{term: n, typ: p.Type()}
			post.names[p.Name()] = tval{term: n, typ: p.Type()}
		}
		for i, r := range e.fc.Requires {
			e.oblige(st, "callback-stable", fmt.Sprintf("[%s]", labelOr(r.Label, i)), v.Pos(), implies(pre.evalBool(r.Expr), post.evalBool(r.Expr)))
		}
	}
	if e.fn.Parent() != nil && !e.transDone {
		// A two-state postcondition labelled [transitive:...] of a function literal is assumed
		// across a host call that invokes the literal any number of times; that is sound when
		// the relation is reflexive and transitive, which is checked here over three arbitrary
		// memory states (the literal's captured variables and the parent's values are fixed).
		e.transDone = true
		for i, en := range e.fc.Ensures {
			if !strings.HasPrefix(en.Label, "transitive:") {
				continue
			}
			if clauseMentionsParams(en.Expr, e.fn) {
				e.structureError(fmt.Sprintf("%s: a [transitive:] postcondition must not mention the literal's parameters", funcKey(e.fn)))
				continue
			}
			s1 := e.entry.clone()
			s2 := s1.clone()
			e.havocAll(s2)
			s3 := s2.clone()
			e.havocAll(s3)
			r11 := e.contractEnv(s1, s1, nil).evalBool(en.Expr)
			r12 := e.contractEnv(s2, s1, nil).evalBool(en.Expr)
			r23 := e.contractEnv(s3, s2, nil).evalBool(en.Expr)
			r13 := e.contractEnv(s3, s1, nil).evalBool(en.Expr)
			o := e.oblige(e.entry, "callback-relation", fmt.Sprintf("reflexive[%s]", labelOr(en.Label, i)), v.Pos(), r11)
			o.Quantified = true
			o = e.oblige(s3, "callback-relation", fmt.Sprintf("transitive[%s]", labelOr(en.Label, i)), v.Pos(), implies(and(r12, r23), r13))
			o.Quantified = true
		}
	}
	// at-return clauses labelled [...:lemma] come first and, once obliged, are available to the
	// clauses after them at this return (assert, then assume: they only structure the proof)
	for i, en := range e.fc.AtReturn {
		if !strings.HasSuffix(en.Label, ":lemma") {
			continue
		}
		lenv := e.contractEnv(st, e.entry, nil)
		lenv.setResults(e.fn, res)
		lenv.lenientLocals = true
		t := lenv.evalBool(en.Expr)
		o := e.oblige(st, "at-return", fmt.Sprintf("[%s]", labelOr(en.Label, i)), v.Pos(), t)
		o.Quantified = strings.Contains(t, "forall") || strings.Contains(t, "exists")
		o.Src = en.Src
		if o.Quantified {
			e.hasQuant = true
		}
		e.assume(st, t)
	}
	for i, en := range e.fc.Ensures {
		if en.Ghost {
			e.V.Assumed[fmt.Sprintf("ghost naming clause of %s: [%s] %s", funcKey(e.fn), en.Label, en.Src)] = true
			continue
		}
		t := env.evalBool(en.Expr)
		o := e.oblige(st, "ensures", fmt.Sprintf("[%s]", labelOr(en.Label, i)), v.Pos(), t)
		o.Quantified = strings.Contains(t, "forall") || strings.Contains(t, "exists")
		o.Src = en.Src
	}
	// assertions at the return that may name local variables (a local that has no value on
	// this path is an arbitrary value: the clause must hold whatever it is)
	if len(e.fc.AtReturn) > 0 {
		lenv := e.contractEnv(st, e.entry, nil)
		lenv.setResults(e.fn, res)
		lenv.lenientLocals = true
		for i, en := range e.fc.AtReturn {
			if strings.HasSuffix(en.Label, ":lemma") {
				continue
			}
			t := lenv.evalBool(en.Expr)
			o := e.oblige(st, "at-return", fmt.Sprintf("[%s]", labelOr(en.Label, i)), v.Pos(), t)
			o.Quantified = strings.Contains(t, "forall") || strings.Contains(t, "exists")
			o.Src = en.Src
		}
	}
}

func clauseMentionsParams(x Expr, fn *ssa.Function) bool {
	names := map[string]bool{}
	for _, p := range fn.Params {
		names[p.Name()] = true
	}
	found := false
	walkExpr(x, func(e Expr) {
		if id, ok := e.(*EIdent); ok && names[id.Name] {
			found = true
		}
	})
	return found
}

// loadWindow reads an array value through a pointer obtained by a slice-to-array conversion.
func (e *fnEnc) loadWindow(st *state, sl string, t types.Type) string {
	a, ok := t.Underlying().(*types.Array)
	if !ok {
		e.unsupported("load through a window pointer of type %s", t)
	}
	s := e.sortOf(t)
	elem := func(i int64) string {
		return e.loadValue(st, idxAddr(app("s_base", sl), bvadd(app("s_off", sl), bvLit(64, uint64(i)))), a.Elem())
	}
	if n, isBV := isByteArrayBV(t); isBV {
		if n == 1 {
			return elem(0)
		}
		var bs []string
		for i := 0; i < n; i++ {
			bs = append(bs, elem(int64(i)))
		}
		return "(concat " + strings.Join(bs, " ") + ")"
	}
	if a.Len() > 32 {
		e.unsupported("load of a large array through a window pointer")
	}
	term := fmt.Sprintf("((as const %s) %s)", s.name, e.V.ST.zeroValue(s.elem))
	for i := int64(0); i < a.Len(); i++ {
		term = fmt.Sprintf("(store %s %s %s)", term, bvLit(64, uint64(i)), elem(i))
	}
	return term
}

// ---------------------------------------------------------------------------
// Variables captured by function literals but never reassigned.
//
// go/ssa turns every captured variable into a heap cell, in the enclosing function too. A
// cell that is written exactly once (its initialisation) and whose address flows only into
// loads and closure bindings holds the same value for its whole life, so reads of it are
// that value: no callee can change it (nothing else has its address).
// ---------------------------------------------------------------------------

// constCell: addr is an Alloc (in the enclosing function) or a FreeVar (in a literal) of
// such a write-once cell; returns the term of its value.
func (e *fnEnc) constCell(addr ssa.Value) (string, bool) {
	switch a := addr.(type) {
	case *ssa.Alloc:
		val, ok := writeOnceAlloc(a)
		if !ok {
			return "", false
		}
		if _, defined := e.vals[val]; !defined && !isConstLike(val) {
			return "", false // read before the initialisation was encoded
		}
		return e.val(val), true
	case *ssa.FreeVar:
		if t, ok := e.constFV[a]; ok {
			return t, t != ""
		}
		ok := freeVarWriteOnce(a)
		if !ok {
			e.constFV[a] = ""
			return "", false
		}
		pt, isPtr := a.Type().Underlying().(*types.Pointer)
		if !isPtr {
			e.constFV[a] = ""
			return "", false
		}
		n := e.declare("cap_"+a.Name(), e.sortOf(pt.Elem()))
		st := e.entry.clone()
		e.assumeWF(st, n, pt.Elem())
		e.constFV[a] = n
		return n, true
	}
	return "", false
}

var writeOnceCache = map[*ssa.Alloc]ssa.Value{}
var writeOnceNo = map[*ssa.Alloc]bool{}

func writeOnceAlloc(a *ssa.Alloc) (ssa.Value, bool) {
	if v, ok := writeOnceCache[a]; ok {
		return v, true
	}
	if writeOnceNo[a] {
		return nil, false
	}
	var stored ssa.Value
	okAll := true
	captured := false
	refs := a.Referrers()
	if refs == nil {
		return nil, false
	}
	for _, r := range *refs {
		switch x := r.(type) {
		case *ssa.Store:
			if x.Addr != ssa.Value(a) || stored != nil {
				okAll = false
			}
			stored = x.Val
			if x.Block() != a.Block() {
				okAll = false // the initialisation must follow the allocation directly
			}
		case *ssa.UnOp:
			if x.Op != token.MUL {
				okAll = false
			}
		case *ssa.DebugRef:
		case *ssa.MakeClosure:
			captured = true
			fn := x.Fn.(*ssa.Function)
			for i, b := range x.Bindings {
				if b == ssa.Value(a) && !fvOnlyRead(fn.FreeVars[i], 0) {
					okAll = false
				}
			}
		default:
			okAll = false
		}
	}
	if !okAll || stored == nil || !captured {
		writeOnceNo[a] = true
		return nil, false
	}
	// the single store must come before every load: require it in the allocation's block
	// directly after the Alloc (the pattern go/ssa emits for captured parameters and
	// `x := e` declarations)
	writeOnceCache[a] = stored
	return stored, true
}

// fvOnlyRead: the captured cell is only loaded (or passed on to nested literals that only
// load it) inside the literal.
func fvOnlyRead(fv *ssa.FreeVar, depth int) bool {
	if depth > 4 {
		return false
	}
	refs := fv.Referrers()
	if refs == nil {
		return true
	}
	for _, r := range *refs {
		switch x := r.(type) {
		case *ssa.UnOp:
			if x.Op != token.MUL {
				return false
			}
		case *ssa.DebugRef:
		case *ssa.MakeClosure:
			fn := x.Fn.(*ssa.Function)
			for i, b := range x.Bindings {
				if b == ssa.Value(fv) && !fvOnlyRead(fn.FreeVars[i], depth+1) {
					return false
				}
			}
		default:
			return false
		}
	}
	return true
}

// freeVarWriteOnce: from inside a literal: the cell bound to fv is write-once in the
// enclosing function(s).
func freeVarWriteOnce(fv *ssa.FreeVar) bool {
	fn := fv.Parent()
	parent := fn.Parent()
	if parent == nil {
		return false
	}
	idx := -1
	for i, f := range fn.FreeVars {
		if f == fv {
			idx = i
		}
	}
	if idx < 0 {
		return false
	}
	found := false
	for _, b := range parent.Blocks {
		for _, ins := range b.Instrs {
			mc, ok := ins.(*ssa.MakeClosure)
			if !ok || mc.Fn != ssa.Value(fn) || idx >= len(mc.Bindings) {
				continue
			}
			found = true
			switch bv := mc.Bindings[idx].(type) {
			case *ssa.Alloc:
				if _, ok := writeOnceAlloc(bv); !ok {
					return false
				}
			case *ssa.FreeVar:
				if !freeVarWriteOnce(bv) {
					return false
				}
			default:
				return false
			}
		}
	}
	return found
}

// localCell: an Alloc whose address is used only for loads and stores in its own function
// and for bindings of function literals that only READ the variable. No callee can write
// such a cell, so it is tracked as a local value (not in the heap) and survives havocs.
var localCellCache = map[*ssa.Alloc]bool{}

func localCell(a *ssa.Alloc) bool {
	if v, ok := localCellCache[a]; ok {
		return v
	}
	ok := true
	refs := a.Referrers()
	if refs == nil {
		ok = false
	} else {
		for _, r := range *refs {
			switch x := r.(type) {
			case *ssa.Store:
				if x.Addr != ssa.Value(a) || x.Val == ssa.Value(a) {
					ok = false
				}
			case *ssa.UnOp:
				if x.Op != token.MUL {
					ok = false
				}
			case *ssa.DebugRef:
			case *ssa.MakeClosure:
				fn := x.Fn.(*ssa.Function)
				for i, b := range x.Bindings {
					if b == ssa.Value(a) && !fvOnlyRead(fn.FreeVars[i], 0) {
						ok = false
					}
				}
			default:
				ok = false
			}
		}
	}
	localCellCache[a] = ok
	return ok
}
