package main

import (
	"regexp"
	"flag"
	"fmt"
	"os"
	"path/filepath"
	"sort"
	"strings"
	"time"

	"golang.org/x/tools/go/ssa"
)

func verifDir() string {
	if d := os.Getenv("GOCV_VERIF"); d != "" {
		return d
	}
	return "/verif"
}

func main() {
	if len(os.Args) < 2 {
		usage()
	}
	switch os.Args[1] {
	case "dump":
		P, err := loadProgram([]string{os.Args[2]})
		if err != nil {
			fmt.Fprintln(os.Stderr, err)
			os.Exit(2)
		}
		for _, f := range P.findFuncs(os.Args[3]) {
			fmt.Println("KEY", funcKey(f))
			f.WriteTo(os.Stdout)
		}
	case "verify":
		cmdVerify(os.Args[2:])
	case "check":
		cmdCheck(os.Args[2:])
	case "inst":
		cmdInst(os.Args[2:])
	case "ematch":
		data, err := os.ReadFile(os.Args[2])
		if err != nil {
			panic(err)
		}
		cases, n := ematchCasesSplit(string(data), 200, 6000, 6, false, false)
		if len(os.Args) > 4 && os.Args[4] == "split" {
			cases, n = ematchCasesSplit(string(data), 200, 6000, 6, false, true)
		}
		fmt.Fprintf(os.Stderr, "cases=%d instances=%d\n", len(cases), n)
		for i, c := range cases {
			os.WriteFile(fmt.Sprintf("%s.case%d.smt2", os.Args[3], i), []byte(c), 0o644)
		}
	case "intr":
		cmdIntR(os.Args[2:])
	default:
		usage()
	}
}

func usage() {
	fmt.Fprintln(os.Stderr, "usage: gocv dump <pkg> <func> | verify [-t sec] [-specs dir] <pkgs,comma> <funckey>... | check <prop> <tier>")
	os.Exit(2)
}

// cmdVerify: development entry: verify the named functions and print every obligation.
var propScopeRe = regexp.MustCompile(`\[(C[0-9][0-9]):`)

func cmdVerify(args []string) {
	fs := flag.NewFlagSet("verify", flag.ExitOnError)
	tmo := fs.Int("t", 10, "per-configuration solver timeout (s)")
	specs := fs.String("specs", filepath.Join(verifDir(), "specs"), "directory with *.gospec files")
	out := fs.String("out", "", "scratch directory for SMT files")
	keep := fs.Bool("v", false, "print discharged obligations too")
	sweep := fs.Bool("sweep", false, "functions without a contract are checked for safety only")
	frames := fs.String("frames", "", "comma separated callee-name substrings assumed to modify nothing (assume_frames)")
	fs.Parse(args)
	rest := fs.Args()
	if len(rest) < 2 {
		usage()
	}
	P, err := loadProgram(strings.Split(rest[0], ","))
	if err != nil {
		fmt.Fprintln(os.Stderr, err)
		os.Exit(2)
	}
	C, err := loadAllContracts(P, *specs)
	if err != nil {
		fmt.Fprintln(os.Stderr, err)
		os.Exit(2)
	}
	V := newVerifier(P, C)
	V.Sweep = *sweep
	if *frames != "" {
		V.AssumeFrames = strings.Split(*frames, ",")
	}
	var fns []*ssa.Function
	for _, k := range rest[1:] {
		f := P.lookupFunc(k)
		if f == nil {
			cands := P.findFuncs(k)
			if len(cands) == 0 {
				fmt.Fprintf(os.Stderr, "no function %q\n", k)
				os.Exit(2)
			}
			fns = append(fns, cands...)
			continue
		}
		fns = append(fns, f)
	}
	dir := *out
	if dir == "" {
		dir, _ = os.MkdirTemp("", "gocv.")
		defer os.RemoveAll(dir)
	}
	res := V.verifyFunctions(fns, nil, solveOpts{timeout: time.Duration(*tmo) * time.Second, seed: 0, outDir: dir, workers: 16})
	bad := 0
	for _, o := range res.Obls {
		if o.Result != "unsat" || *keep {
			fmt.Printf("%-8s %6dms %-14s %s  (%s)\n", o.Result, o.Ms, o.Solver, o.Name, o.Pos)
			if o.Result != "unsat" {
				bad++
				if o.Result == "sat" {
					fmt.Printf("    model: %s\n", firstLines(strings.SplitN(o.Output, "\n", 2)[1], 12))
				} else if o.Result == "error" {
					fmt.Printf("    output: %s\n", firstLines(o.Output, 5))
				}
			}
		}
	}
	for _, s := range res.Structure {
		fmt.Println("STRUCTURE", s)
		bad++
	}
	var as []string
	for k := range V.Assumed {
		as = append(as, k)
	}
	sort.Strings(as)
	cs, cu := 0, 0
	for _, c := range res.Covers {
		if c.Result == "sat" {
			cs++
		} else {
			cu++
		}
	}
	fmt.Printf("functions=%d obligations=%d discharged=%d failed=%d assumed-callees=%d covers(sat/other)=%d/%d\n", len(fns), len(res.Obls), res.Discharged, bad, len(as), cs, cu)
	if *keep {
		for _, a := range as {
			fmt.Println("  assumed:", a)
		}
	}
	if bad > 0 {
		os.Exit(1)
	}
}

type runResult struct {
	Ignored     int
	DeadReturns []string
	Covers     []*Obligation
	Obls       []*Obligation
	Structure  []string
	Discharged int
	Funcs      []string
	SolverTime time.Duration
}

// verifyFunctions encodes and solves the given functions (and lemmas).
func (V *Verifier) verifyFunctions(fns []*ssa.Function, lemmas []*Lemma, opt solveOpts) *runResult {
	res := &runResult{}
	V.prepareAxioms()
	res.Structure = append(res.Structure, V.checkImmutables()...)
	for _, fn := range fns {
		key := funcKey(fn)
		fc := V.contractOfFn(fn) // an instance of a generic function: the generic function's contract
		if fc == nil && !V.Sweep && !V.SweepSet[key] {
			res.Structure = append(res.Structure, fmt.Sprintf("structure:%s: no contract found for function under verification", key))
			continue
		}
		if fc != nil && fc.Extern {
			res.Structure = append(res.Structure, fmt.Sprintf("structure:%s: contract is extern (assumed), cannot be verified", key))
			continue
		}
		enc := V.encodeFunction(fn, fc)
		for _, s := range enc.errs {
			res.Structure = append(res.Structure, fmt.Sprintf("structure:%s: %s", key, s))
		}
		res.Obls = append(res.Obls, enc.obls...)
		res.Covers = append(res.Covers, enc.covers...)
		if len(enc.covers) == 0 && len(enc.errs) == 0 {
			res.Structure = append(res.Structure, fmt.Sprintf("structure:%s: no reachable return (vacuous encoding)", key))
		}
		res.Funcs = append(res.Funcs, key)
	}
	for _, l := range lemmas {
		res.Obls = append(res.Obls, V.encodeLemma(l)...)
	}
	if len(V.IgnoreKinds) > 0 || V.PropID != "" {
		var kept []*Obligation
		for _, o := range res.Obls {
			if V.IgnoreKinds[o.Kind] {
				res.Ignored++
				continue
			}
			// a clause labelled [Cxx:...] is an obligation of property Cxx's check only; the
			// other checks use it (assumed at call sites, as a loop invariant) and report it
			if own := propScopeRe.FindStringSubmatch(o.Name); own != nil && V.PropID != "" && own[1] != V.PropID {
				res.Ignored++
				V.ForeignClauses[own[1]+": "+o.Func] = true
				continue
			}
			kept = append(kept, o)
		}
		res.Obls = kept
	}
	start := time.Now()
	V.solveAll(res.Obls, opt)
	retryUndecided := func(obls []*Obligation) {
		// second pass: obligations left undecided (unknown / timeout, not sat) are tried again
		// a few at a time, so that a hard query is not starved by its neighbours
		var again []*Obligation
		for _, o := range obls {
			if o.Result != "unsat" && o.Result != "sat" && o.Result != "error" && !strings.Contains(o.Name, "[auto:") {
				again = append(again, o)
			}
		}
		if len(again) == 0 || len(again) > 24 {
			return
		}
		for _, o := range again {
			o.Result = ""
			o.Retried = true
		}
		ropt := opt
		ropt.workers = 3
		ropt.timeout = 3 * opt.timeout // alone and with three times the budget
		V.solveAll(again, ropt)
	}
	retryUndecided(res.Obls)
	copt := opt
	if copt.timeout > 3*time.Second {
		copt.timeout = 3 * time.Second
	}
	V.solveAll(res.Covers, copt)
	// vacuity: a function none of whose returns is reachable under the assumptions made
	// (contradictory requires / invariants / extern contracts) proves nothing. A single
	// unreachable return is usually defensive code that the contracts make dead; those are
	// listed in the evidence, not reported.
	succ := map[string][2]int{}
	for _, c := range res.Covers {
		if c.Success {
			r := succ[c.Func]
			if c.Result == "unsat" {
				r[1]++
			} else {
				r[0]++
			}
			succ[c.Func] = r
		}
	}
	for fn, r := range succ {
		if r[0] == 0 && r[1] > 0 {
			res.Structure = append(res.Structure, fmt.Sprintf("vacuity:%s: no success return (nil error) is reachable under the assumed contracts", fn))
		}
	}
	reach := map[string][2]int{}
	for _, c := range res.Covers {
		r := reach[c.Func]
		if c.Result == "unsat" {
			r[1]++
			res.DeadReturns = append(res.DeadReturns, c.Name)
		} else {
			r[0]++
		}
		reach[c.Func] = r
	}
	for fn, r := range reach {
		if r[0] == 0 && r[1] > 0 {
			res.Structure = append(res.Structure, fmt.Sprintf("vacuity:%s: no return is reachable under the assumed contracts (contradictory requires/invariants/extern contracts)", fn))
		}
	}
	// Houdini step for automatically proposed loop invariants: a candidate whose own
	// check fails is dropped and the function is re-encoded without it.
	for round := 0; round < 3; round++ {
		redo := map[string]bool{}
		for _, o := range res.Obls {
			if o.Result != "unsat" && strings.Contains(o.Name, "[auto:") {
				i := strings.Index(o.Name, ":loop")
				j := strings.Index(o.Name, "]@")
				V.autoOff[o.Func+"#"+o.Name[i+1:j+1]] = true
				redo[o.Func] = true
			}
		}
		if len(redo) == 0 {
			break
		}
		var kept []*Obligation
		for _, o := range res.Obls {
			if !redo[o.Func] {
				kept = append(kept, o)
			}
		}
		res.Obls = kept
		var again []*Obligation
		for _, fn := range fns {
			key := funcKey(fn)
			if redo[key] {
				enc := V.encodeFunction(fn, V.C.Funcs[key])
				again = append(again, enc.obls...)
			}
		}
		V.solveAll(again, opt)
		retryUndecided(again)
		res.Obls = append(res.Obls, again...)
	}
	res.SolverTime = time.Since(start)
	for _, o := range res.Obls {
		if o.Result == "unsat" {
			res.Discharged++
		}
	}
	return res
}
