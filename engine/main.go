package main

import (
	"fmt"
	"golang.org/x/tools/go/packages"
	"golang.org/x/tools/go/ssa"
)

func main() {
	_ = packages.NeedName
	_ = ssa.GlobalDebug
	fmt.Println("hi")
}
