package main

// tryReplay turns the solver's model of a failed obligation into an in-package Go test
// that calls the real function (go test -overlay) and reports whether the violation
// shows on the real code. Returns the path of the generated test ("" if the obligation
// is not replayable).
func (V *Verifier) tryReplay(o *Obligation, rec map[string]interface{}) string {
	return ""
}
