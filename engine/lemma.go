package main

import (
	"fmt"
	"go/types"
	"strings"

	"golang.org/x/tools/go/ssa"
)

// pureEnc is an encoder without a function: used for axioms and lemmas, which are
// closed formulas over spec functions.
func (V *Verifier) pureEnc() *fnEnc {
	e := &fnEnc{V: V, lazySet: map[string]bool{}, vals: map[ssa.Value]string{}, tuples: map[ssa.Value][]string{},
		anchors: map[string]int{}, params: map[string]tval{}, specConsts: map[string]string{}, storeInfo: map[string]storeRec{}, allocNames: map[string]bool{}, allocOrder: map[string]int{}, declOrder: map[string]int{}, winOf: map[ssa.Value]string{}}
	st := &state{reach: "true", heap: map[string]string{}, next: "0"}
	e.entry = st
	return e
}

func (V *Verifier) pureEnv(e *fnEnc, pkgPath string) *env {
	en := &env{e: e, st: e.entry, old: e.entry, names: map[string]tval{}}
	if p := V.P.byPath[pkgPath]; p != nil {
		en.pkg = p.Types
	}
	return en
}

func (V *Verifier) prepareAxioms() {
	if V.axiomsDone {
		return
	}
	V.axiomsDone = true
	for _, ax := range V.C.Axioms {
		e := V.pureEnc()
		func() {
			defer func() {
				if r := recover(); r != nil {
					V.Warnings = append(V.Warnings, fmt.Sprintf("axiom %s: %v", ax.Label, r))
					V.axiomErrs = append(V.axiomErrs, fmt.Sprintf("structure:axiom[%s]: %v", ax.Label, r))
				}
			}()
			en := V.pureEnv(e, ax.Pkg)
			t := en.evalBool(ax.Expr)
			if len(e.ctx) > 0 {
				V.axiomErrs = append(V.axiomErrs, fmt.Sprintf("structure:axiom[%s]: needs side definitions", ax.Label))
				return
			}
			V.axiomTerms = append(V.axiomTerms, t)
			V.axiomNames = append(V.axiomNames, "axiom["+ax.Label+"] "+ax.Src)
		}()
	}
}

func (V *Verifier) encodeLemma(l *Lemma) []*Obligation {
	e := V.pureEnc()
	var out []*Obligation
	func() {
		defer func() {
			if r := recover(); r != nil {
				out = append(out, &Obligation{Name: "lemma:" + l.Name, Kind: "lemma", Result: "error", Output: fmt.Sprint(r), enc: e, Goal: "false"})
			}
		}()
		en := V.pureEnv(e, l.Pkg)
		t := en.evalBool(l.Expr)
		out = append(out, &Obligation{Name: "lemma:" + l.Name, Kind: "lemma", Func: "lemma", Goal: t, CtxLen: len(e.ctx), enc: e, Src: l.Src, Pos: fmt.Sprintf("%s:%d", l.File, l.Line), Quantified: true})
	}()
	return out
}

// assumeGlobalFacts assumes the `global` clauses (ground facts about package-level
// variables, established by the package initialisers; see DESIGN A.6).
func (e *fnEnc) assumeGlobalFacts(st *state) {
	for _, g := range e.V.C.Glob {
		func() {
			defer func() {
				if r := recover(); r != nil {
					// a fact about a package that this run did not load is irrelevant here
					// (dropping an assumption can only make obligations harder)
					e.V.Warnings = append(e.V.Warnings, fmt.Sprintf("global fact [%s] skipped: %v", g.Clause.Label, r))
				}
			}()
			en := &env{e: e, st: st, old: st, names: map[string]tval{}}
			if p := e.V.P.byPath[g.Clause.Pkg]; p != nil {
				en.pkg = p.Types
			}
			t := en.evalBool(g.Clause.Expr)
			if strings.Contains(t, "forall") {
				e.hasQuant = true
			}
			e.assume(st, t)
			e.V.GlobalsUsed[g.Clause.Label+": "+g.Clause.Src] = true
		}()
	}
}

var _ = types.Typ
