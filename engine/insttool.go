package main

import (
	"fmt"
	"os"
	"strconv"
)

// cmdInst: development helper: gocv inst <file.smt2> <maxPerQ> prints the instantiated query.
func cmdInst(args []string) {
	data, err := os.ReadFile(args[0])
	if err != nil {
		panic(err)
	}
	n, _ := strconv.Atoi(args[1])
	out, cnt := instantiateObligation(string(data), n)
	fmt.Fprintf(os.Stderr, "instances=%d\n", cnt)
	fmt.Print(out)
}

func cmdIntR(args []string) {
	data, err := os.ReadFile(args[0])
	if err != nil {
		panic(err)
	}
	out, err := toIntRendering(string(data))
	if err != nil {
		fmt.Fprintln(os.Stderr, "error:", err)
		os.Exit(1)
	}
	fmt.Print(out)
}
