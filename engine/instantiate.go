package main

import (
	"fmt"
	"sort"
	"strings"
)

// ---------------------------------------------------------------------------
// Goal-directed quantifier instantiation (text level).
//
// The SMT solvers' quantifier-free preprocessing (value propagation, equation solving,
// linear normalisation of bit-vector arithmetic) is far stronger than what they do once a
// quantifier is present. This pass turns an obligation with quantifiers into a
// quantifier-free one that is *at least as hard to refute*:
//
//   * the negated goal is skolemised (forall in the goal -> fresh constants); an exists in
//     the goal is replaced by a disjunction of instances (a stronger goal);
//   * every universally quantified hypothesis (positive position) is replaced by the
//     conjunction of its instances at a finite set of candidate terms (a weaker
//     hypothesis); an exists in a hypothesis is skolemised;
//   * a hypothesis in which a quantifier occurs under mixed polarity is dropped.
//
// "unsat" for the result therefore implies "unsat" for the original: sound for proving.
// "sat" means nothing (instances may be missing) and is never reported as a counterexample.
// ---------------------------------------------------------------------------

type sx struct {
	atom string
	list []*sx
}

func (s *sx) isAtom() bool { return s.list == nil && s.atom != "" }

func (s *sx) String() string {
	var b strings.Builder
	s.write(&b)
	return b.String()
}

func (s *sx) write(b *strings.Builder) {
	if s.list == nil {
		b.WriteString(s.atom)
		return
	}
	b.WriteByte('(')
	for i, c := range s.list {
		if i > 0 {
			b.WriteByte(' ')
		}
		c.write(b)
	}
	b.WriteByte(')')
}

func parseSexps(text string) ([]*sx, error) {
	var out []*sx
	var stack []*sx
	i := 0
	n := len(text)
	for i < n {
		c := text[i]
		switch {
		case c == ' ' || c == '\n' || c == '\t' || c == '\r':
			i++
		case c == ';':
			for i < n && text[i] != '\n' {
				i++
			}
		case c == '(':
			stack = append(stack, &sx{list: []*sx{}})
			i++
		case c == ')':
			if len(stack) == 0 {
				return nil, fmt.Errorf("unbalanced )")
			}
			top := stack[len(stack)-1]
			stack = stack[:len(stack)-1]
			if len(stack) == 0 {
				out = append(out, top)
			} else {
				p := stack[len(stack)-1]
				p.list = append(p.list, top)
			}
			i++
		case c == '|':
			j := i + 1
			for j < n && text[j] != '|' {
				j++
			}
			a := &sx{atom: text[i : j+1]}
			if len(stack) == 0 {
				out = append(out, a)
			} else {
				p := stack[len(stack)-1]
				p.list = append(p.list, a)
			}
			i = j + 1
		default:
			j := i
			for j < n && !strings.ContainsRune(" \n\t\r()", rune(text[j])) {
				j++
			}
			a := &sx{atom: text[i:j]}
			if len(stack) == 0 {
				out = append(out, a)
			} else {
				p := stack[len(stack)-1]
				p.list = append(p.list, a)
			}
			i = j
		}
	}
	if len(stack) != 0 {
		return nil, fmt.Errorf("unbalanced (")
	}
	return out, nil
}

func (s *sx) head() string {
	if s.list != nil && len(s.list) > 0 && s.list[0].isAtom() {
		return s.list[0].atom
	}
	return ""
}

func (s *sx) containsQuant() bool {
	if s.list == nil {
		return false
	}
	h := s.head()
	if h == "forall" || h == "exists" {
		return true
	}
	for _, c := range s.list {
		if c.containsQuant() {
			return true
		}
	}
	return false
}

func (s *sx) subst(m map[string]*sx) *sx {
	if s.list == nil {
		if r, ok := m[s.atom]; ok {
			return r
		}
		return s
	}
	out := &sx{list: make([]*sx, len(s.list))}
	for i, c := range s.list {
		out.list[i] = c.subst(m)
	}
	return out
}

func atom(a string) *sx { return &sx{atom: a} }
func lst(xs ...*sx) *sx { return &sx{list: xs} }

// singleAppPattern returns the pattern term if the quantifier has exactly one pattern
// consisting of one application (f ...) of a spec function in which every bound variable
// appears as a direct argument.
func singleAppPattern(body *sx, binders []*sx) *sx {
	if body.head() != "!" {
		return nil
	}
	var pats []*sx
	for i := 2; i+1 < len(body.list); i += 2 {
		if body.list[i].atom == ":pattern" {
			pats = append(pats, body.list[i+1])
		}
	}
	if len(pats) != 1 || len(pats[0].list) != 1 {
		return nil
	}
	p := pats[0].list[0]
	if !strings.HasPrefix(p.head(), "sf_") {
		return nil
	}
	for _, b := range binders {
		found := false
		for _, a := range p.list[1:] {
			if a.isAtom() && a.atom == b.list[0].atom {
				found = true
			}
		}
		if !found {
			return nil
		}
	}
	return p
}

func matchApp(pat, appl *sx, binders []*sx) map[string]*sx {
	if len(pat.list) != len(appl.list) {
		return nil
	}
	isVar := map[string]bool{}
	for _, b := range binders {
		isVar[b.list[0].atom] = true
	}
	m := map[string]*sx{}
	for i := 1; i < len(pat.list); i++ {
		pa := pat.list[i]
		if pa.isAtom() && isVar[pa.atom] {
			if prev, ok := m[pa.atom]; ok && prev.String() != appl.list[i].String() {
				return nil
			}
			m[pa.atom] = appl.list[i]
			continue
		}
		if pa.String() != appl.list[i].String() {
			return nil
		}
	}
	return m
}

type skolems struct {
	names map[string][]string // ground quantified formula -> its witnesses
	decls []string
	ctr   int
}

type instCtx struct {
	funSort   map[string]string // declared function -> result sort text
	splits    []string // guards of instances that mention a skolem: case-split candidates
	splitSeen map[string]bool
	apps      map[string][]*sx // spec-function applications seen in the query, by symbol
	appSeen   map[string]bool
	decls     []string       // unused (kept for the copy semantics of per-hypothesis contexts)
	sk        *skolems       // skolem constants, shared by all copies of the context
	ctr       int
	cands     map[string][]*sx // sort text -> candidate terms
	lits      map[string][]*sx // sort text -> literal candidates (used after the others)
	front     bool             // terms being harvested come from the goal: they go first
	candSeen  map[string]bool
	dropped   int
	instCount int
	maxPerQ   int
}

func (ic *instCtx) addCand(sortText string, t *sx) {
	k := sortText + "|" + t.String()
	if ic.candSeen[k] {
		return
	}
	ic.candSeen[k] = true
	if t.list == nil && strings.HasPrefix(t.atom, "#x") && t.atom != "#x0000000000000000" {
		// literal indices (byte offsets of fixed-width reads) are many and rarely the
		// instance a proof needs: they come after the program's own values
		ic.lits[sortText] = append(ic.lits[sortText], t)
		return
	}
	if ic.front {
		ic.cands[sortText] = append([]*sx{t}, ic.cands[sortText]...)
		return
	}
	ic.cands[sortText] = append(ic.cands[sortText], t)
}

// candidates: program values first, literals last.
func (ic *instCtx) candidates(sortText string) []*sx {
	if len(ic.lits[sortText]) == 0 {
		return ic.cands[sortText]
	}
	out := append([]*sx{}, ic.cands[sortText]...)
	return append(out, ic.lits[sortText]...)
}

const sortBV64Text = "(_ BitVec 64)"

// stripPattern removes (! body :pattern ...) annotations.
func stripPattern(s *sx) *sx {
	if s.head() == "!" && len(s.list) >= 2 {
		return s.list[1]
	}
	return s
}

type mixedPolarity struct{}

// elim rewrites f. pol = +1: f is a hypothesis-like (true) position; -1: f occurs negated.
func (ic *instCtx) elim(f *sx, pol int) *sx {
	if f.list == nil || !f.containsQuant() {
		return f
	}
	h := f.head()
	switch h {
	case "not":
		return lst(atom("not"), ic.elim(f.list[1], -pol))
	case "and", "or":
		out := &sx{list: []*sx{f.list[0]}}
		for _, c := range f.list[1:] {
			out.list = append(out.list, ic.elim(c, pol))
		}
		return out
	case "=>":
		out := &sx{list: []*sx{f.list[0]}}
		for i, c := range f.list[1:] {
			if i == len(f.list)-2 {
				out.list = append(out.list, ic.elim(c, pol))
			} else {
				out.list = append(out.list, ic.elim(c, -pol))
			}
		}
		return out
	case "ite":
		if f.list[1].containsQuant() {
			panic(mixedPolarity{})
		}
		return lst(f.list[0], f.list[1], ic.elim(f.list[2], pol), ic.elim(f.list[3], pol))
	case "!":
		return ic.elim(f.list[1], pol)
	case "let":
		// bindings are terms; quantifiers in bindings are not supported
		for _, b := range f.list[1].list {
			if b.list[1].containsQuant() {
				panic(mixedPolarity{})
			}
		}
		return lst(f.list[0], f.list[1], ic.elim(f.list[2], pol))
	case "forall", "exists":
		body := stripPattern(f.list[2])
		binders := f.list[1].list
		skolemise := (h == "forall" && pol < 0) || (h == "exists" && pol > 0)
		if skolemise {
			// one witness per ground formula: the same instance met again in a later round
			// reuses its skolem constants (declared once, up front)
			key := f.String()
			names, cached := ic.sk.names[key]
			m := map[string]*sx{}
			for bi, b := range binders {
				st := b.list[1].String()
				var name string
				if cached {
					name = names[bi]
				} else {
					ic.sk.ctr++
					name = fmt.Sprintf("sk_%s_%d", sanitize(b.list[0].atom), ic.sk.ctr)
					ic.sk.decls = append(ic.sk.decls, fmt.Sprintf("(declare-const %s %s)", name, st))
					names = append(names, name)
				}
				m[b.list[0].atom] = atom(name)
				ic.addSkolemCands(st, name)
			}
			ic.sk.names[key] = names
			return ic.elim(body.subst(m), pol)
		}
		// instantiate. A definitional axiom (pattern = one application of a spec function
		// whose arguments include every bound variable directly) is matched against the
		// applications that occur in the query; everything else uses candidate terms.
		if pat := singleAppPattern(f.list[2], binders); pat != nil && h == "forall" {
			out := &sx{list: []*sx{atom("and")}}
			seen := map[string]bool{}
			for _, appl := range ic.apps[pat.head()] {
				m := matchApp(pat, appl, binders)
				if m == nil {
					continue
				}
				k := appl.String()
				if seen[k] {
					continue
				}
				seen[k] = true
				ic.instCount++
				out.list = append(out.list, ic.elim(body.subst(m), pol))
			}
			if len(out.list) == 1 {
				return atom("true")
			}
			return out
		}
		var combos []map[string]*sx
		combos = append(combos, map[string]*sx{})
		for _, b := range binders {
			st := b.list[1].String()
			cs := ic.candidates(st)
			if len(cs) == 0 {
				// no candidate: the quantified fact contributes nothing
				if pol > 0 {
					return atom("true")
				}
				return atom("false")
			}
			var next []map[string]*sx
			for _, m := range combos {
				for _, c := range cs {
					if len(next) >= ic.maxPerQ {
						break
					}
					m2 := map[string]*sx{}
					for k, v := range m {
						m2[k] = v
					}
					m2[b.list[0].atom] = c
					next = append(next, m2)
				}
			}
			combos = next
		}
		op := "and"
		if h == "exists" {
			op = "or"
		}
		out := &sx{list: []*sx{atom(op)}}
		for _, m := range combos {
			ic.instCount++
			inst := body.subst(m)
			if inst.head() == "=>" && len(inst.list) == 3 && h == "forall" && !inst.list[1].containsQuant() && mentions(inst.list[1], "sk_") {
				k := inst.list[1].String()
				if !ic.splitSeen[k] && len(k) < 400 {
					ic.splitSeen[k] = true
					ic.splits = append(ic.splits, k)
				}
			}
			out.list = append(out.list, ic.elim(inst, pol))
		}
		if len(out.list) == 2 {
			return out.list[1]
		}
		return out
	}
	// any other connective (=, xor, distinct, function application) with a quantifier below
	panic(mixedPolarity{})
}

func (ic *instCtx) addSkolemCands(sortText, name string) {
	ic.addCand(sortText, atom(name))
	if sortText == sortBV64Text {
		ic.addCand(sortText, lst(atom("bvsub"), atom(name), atom("#x0000000000000001")))
		ic.addCand(sortText, lst(atom("bvadd"), atom(name), atom("#x0000000000000001")))
	}
}

// collectTerms harvests candidate instantiation terms from a formula: addresses used in
// selects (Ref) and the index parts of element addresses (BV64).
func (ic *instCtx) collectTerms(f *sx, bound map[string]bool) {
	if f.list == nil {
		return
	}
	h := f.head()
	if h == "forall" || h == "exists" {
		return // terms under a binder may mention bound variables
	}
	if h == "select" && len(f.list) == 3 {
		addr := f.list[2]
		// only a select on a heap (an array named H...) is indexed by a reference; the content of
		// a map or of an array value is indexed by its own key sort
		isHeap := f.list[1].list == nil && strings.HasPrefix(f.list[1].atom, "H")
		if isHeap && !mentions(addr, "q_") && !mentions(addr, "ai") && !mentions(addr, "zi") && !mentions(addr, "ci") {
			ic.addCand("Ref", addr)
			if addr.head() == "idx" && len(addr.list) == 3 {
				ix := addr.list[2]
				if ix.list == nil {
					ic.addCand(sortBV64Text, ix)
				}
				if ix.head() == "bvadd" && len(ix.list) == 3 {
					// (bvadd (s_off S) T): T is the logical index
					if ix.list[1].head() == "s_off" || strings.HasSuffix(ix.list[1].atom, "_o") {
						ic.addCand(sortBV64Text, ix.list[2])
					}
				}
			}
		}
	}
	if h == "idx" && len(f.list) == 3 && !mentions(f, "q_") && !mentions(f, "ai") && !mentions(f, "zi") && !mentions(f, "ci") {
		// an element address built outside a select (the definition of a program value)
		ix := f.list[2]
		if ix.list == nil {
			ic.addCand(sortBV64Text, ix)
		}
		if ix.head() == "bvadd" && len(ix.list) == 3 && (ix.list[1].head() == "s_off" || strings.HasSuffix(ix.list[1].atom, "_o")) {
			ic.addCand(sortBV64Text, ix.list[2])
		}
	}
	if strings.HasPrefix(h, "sf_") {
		k := f.String()
		if !ic.appSeen[k] {
			ic.appSeen[k] = true
			ic.apps[h] = append(ic.apps[h], f)
		}
		// a ground application of an uninterpreted spec function is a candidate for binders
		// of its result sort (other than the index / reference sorts handled above)
		if rs, ok := ic.funSort[h]; ok && rs != sortBV64Text && rs != "Ref" && rs != "Bool" {
			ic.addCand(rs, f)
		}
	}
	for _, c := range f.list {
		ic.collectTerms(c, bound)
	}
}

func (s *sx) walkAtoms(f func(string)) {
	if s.list == nil {
		f(s.atom)
		return
	}
	for _, c := range s.list {
		c.walkAtoms(f)
	}
}

func mentions(s *sx, prefix string) bool {
	if s.list == nil {
		return strings.HasPrefix(s.atom, prefix) && (prefix != "ai" && prefix != "zi" && prefix != "ci" || s.atom == prefix)
	}
	for _, c := range s.list {
		if mentions(c, prefix) {
			return true
		}
	}
	return false
}

// instantiateObligation returns a quantifier-free strengthening of the query, or "" if
// the goal itself cannot be handled.
func instantiateObligation(text string, maxPerQ int) (string, int) {
	t, n, _ := instantiateObligation2(text, maxPerQ)
	return t, n
}

func instantiateObligation2(text string, maxPerQ int) (string, int, []string) {
	forms, err := parseSexps(text)
	if err != nil {
		return "", 0, nil
	}
	goalIdx := -1
	for i, f := range forms {
		if f.head() == "assert" && len(f.list) == 2 && f.list[1].head() == "not" {
			goalIdx = i
		}
	}
	if goalIdx < 0 {
		return "", 0, nil
	}
	ic := &instCtx{sk: &skolems{names: map[string][]string{}}, cands: map[string][]*sx{}, lits: map[string][]*sx{}, candSeen: map[string]bool{}, maxPerQ: maxPerQ, apps: map[string][]*sx{}, appSeen: map[string]bool{}, splitSeen: map[string]bool{}}
	ic.funSort = map[string]string{}
	for _, f := range forms {
		if f.head() == "declare-fun" && len(f.list) == 4 {
			ic.funSort[f.list[1].atom] = f.list[3].String()
		}
	}
	ic.addCand(sortBV64Text, atom("#x0000000000000000"))
	// 1. the goal
	var goal *sx
	ok := func() (ok bool) {
		defer func() {
			if r := recover(); r != nil {
				if _, is := r.(mixedPolarity); is {
					ok = false
					return
				}
				panic(r)
			}
		}()
		// candidates for an exists in the goal come from the goal's own ground terms
		ic.collectTerms(forms[goalIdx].list[1], nil)
		goal = ic.elim(forms[goalIdx].list[1], 1)
		return true
	}()
	if !ok {
		return "", 0, nil
	}
	ic.collectTerms(goal, nil)
	// terms hidden behind the names the goal mentions (define-fun'd program values), a few
	// levels deep: the goal's own addresses and indices come first among the candidates
	defs := map[string]*sx{}
	for _, f := range forms {
		if f.head() == "define-fun" && len(f.list) == 5 && len(f.list[2].list) == 0 && !f.list[4].containsQuant() {
			defs[f.list[1].atom] = f.list[4]
		}
	}
	visited := map[string]bool{}
	frontier := []*sx{forms[goalIdx].list[1]}
	for depth := 0; depth < 4 && len(frontier) > 0; depth++ {
		var next []*sx
		for _, t := range frontier {
			t.walkAtoms(func(a string) {
				if body, ok := defs[a]; ok && !visited[a] {
					visited[a] = true
					ic.collectTerms(body, nil)
					next = append(next, body)
				}
			})
		}
		frontier = next
	}
	// 2. hypotheses: two rounds so that instances can feed frame axioms
	hyps := map[int]*sx{}
	hypDecls := map[int][]string{}
	process := func() {
		for i, f := range forms {
			if i == goalIdx || f.head() != "assert" || !f.list[1].containsQuant() {
				continue
			}
			func() {
				defer func() {
					if r := recover(); r != nil {
						if _, is := r.(mixedPolarity); is {
							hyps[i] = nil
							return
						}
						panic(r)
					}
				}()
				ic2 := *ic
				ic2.decls = nil
				r := ic2.elim(f.list[1], 1)
				hyps[i] = r
				hypDecls[i] = ic2.decls
				ic.ctr = ic2.ctr
				ic.instCount = ic2.instCount
			}()
		}
	}
	// spec-function applications anywhere in the quantifier-free part of the query
	for i, f := range forms {
		if i != goalIdx && (f.head() == "assert" || f.head() == "define-fun") && !f.containsQuant() {
			ic.collectApps(f)
		}
	}
	for round := 0; round < 3; round++ {
		process()
		for _, h := range hyps {
			if h != nil {
				ic.collectTerms(h, nil)
			}
		}
	}
	process()
	// the goal once more: an exists in the goal can now use the witnesses that the
	// instantiated hypotheses introduced (same skolem constants as in the first pass)
	func() {
		defer func() {
			if r := recover(); r != nil {
				if _, is := r.(mixedPolarity); !is {
					panic(r)
				}
			}
		}()
		goal = ic.elim(forms[goalIdx].list[1], 1)
	}()
	// ... and the hypotheses once more at the terms of the goal's new instances (frame axioms
	// at the addresses the chosen witnesses read)
	ic.front = true
	ic.collectTerms(goal, nil)
	ic.front = false
	process()
	// declarations and definitions first (instances may mention constants declared
	// later than the hypothesis they instantiate), then all assertions in order
	var b strings.Builder
	for i, f := range forms {
		h := f.head()
		if h == "check-sat" || h == "get-value" || h == "get-model" || h == "assert" || i == goalIdx {
			continue
		}
		b.WriteString(f.String() + "\n")
	}
	for _, d := range ic.sk.decls {
		b.WriteString(d + "\n")
	}
	for i, f := range forms {
		if f.head() != "assert" || i == goalIdx {
			continue
		}
		if r, isHyp := hyps[i]; isHyp {
			if r == nil {
				ic.dropped++
				continue
			}
			b.WriteString("(assert " + r.String() + ")\n")
			continue
		}
		if f.list[1].containsQuant() {
			continue
		}
		b.WriteString(f.String() + "\n")
	}
	b.WriteString("(assert " + goal.String() + ")\n(check-sat)\n")
	return b.String(), ic.instCount, ic.splits
}

func sortedInts(m map[int]*sx) []int {
	var ks []int
	for k := range m {
		ks = append(ks, k)
	}
	sort.Ints(ks)
	return ks
}

func (ic *instCtx) collectApps(f *sx) {
	if f.list == nil {
		return
	}
	if h := f.head(); strings.HasPrefix(h, "sf_") {
		k := f.String()
		if !ic.appSeen[k] {
			ic.appSeen[k] = true
			ic.apps[h] = append(ic.apps[h], f)
		}
	}
	for _, c := range f.list {
		ic.collectApps(c)
	}
}
