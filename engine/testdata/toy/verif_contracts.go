//go:build verif

package toy

//@ func Abs
//@   requires x > -2147483648
//@   ensures result >= 0
//@   ensures result == x || result == -x
//@   modifies nothing

//@ func First
//@   requires len(b) > 0
//@   ensures result == b[0]
//@   modifies nothing

//@ func FirstBad
//@   ensures result == b[0]
//@   modifies nothing

//@ func Sum
//@   modifies nothing

//@ func Fill
//@   modifies elems(b)
//@   loop 1 invariant 0 <= i && i <= len(b)
//@   loop 1 invariant forall k int :: 0 <= k && k < i ==> b[k] == v
//@   loop 1 decreases len(b) - i
//@   ensures forall k int :: 0 <= k && k < len(b) ==> b[k] == v

//@ func FillBad
//@   modifies elems(b)
//@   loop 1 invariant 0 <= i && i <= len(b)

//@ func (*P).Swap
//@   requires p != nil
//@   modifies p.X, p.Y
//@   ensures p.X == old(p.Y) && p.Y == old(p.X)
//@   ensures unchanged(p.Buf)

//@ func (*P).SwapBad
//@   requires p != nil
//@   modifies p.X, p.Y
//@   ensures p.X == old(p.Y) && p.Y == old(p.X)

//@ func Split
//@   modifies nothing
//@   ensures err != nil ==> len(a) == 0 && b === data
//@   ensures err == nil ==> a === data[:n] && b === data[n:]
//@   ensures err == nil <==> (0 <= n && n <= len(data))

//@ func Copy2
//@   modifies nothing
//@   ensures len(result) == len(src)
//@   ensures forall k int :: 0 <= k && k < len(src) ==> result[k] == src[k]
//@   ensures fresh(result)

//@ func Push
//@   requires len(s) < 1000
//@   ensures len(result) == len(s) + 1
//@   ensures result[len(s)] == x
//@   ensures forall k int :: 0 <= k && k < len(s) ==> result[k] == old(s[k])

//@ func MaxOf
//@   modifies nothing
//@   loop 1 invariant forall k int :: {a[k]} 0 <= k && k <= idx ==> a[k] <= m
//@   loop 1 invariant exists k int :: 0 <= k && k < len(a) && a[k] == m
//@   loop 1 invariant -1 <= idx && idx < len(a)
//@   ensures result1 <==> len(a) > 0
//@   ensures result1 ==> forall k int :: {a[k]} 0 <= k && k < len(a) ==> a[k] <= result0
//@   ensures result1 ==> exists k int :: 0 <= k && k < len(a) && a[k] == result0

//@ func Member
//@   modifies nothing
//@   loop 1 invariant -1 <= idx && idx < len(a)
//@   loop 1 invariant forall y uint8 :: has(set, y) ==> set[y]
//@   loop 1 invariant forall k int :: {a[k]} 0 <= k && k <= idx ==> has(set, a[k])
//@   loop 1 invariant forall y uint8 :: has(set, y) ==> exists k int :: 0 <= k && k <= idx && a[k] == y
//@   ensures result <==> exists k int :: 0 <= k && k < len(a) && a[k] == x

//@ func UseSplit
//@   modifies nothing

//@ func MaxOfBad
//@   modifies nothing
//@   loop 1 invariant forall k int :: {a[k]} 0 <= k && k <= idx ==> a[k] <= m
//@   loop 1 invariant exists k int :: 0 <= k && k < len(a) && a[k] == m
//@   loop 1 invariant -1 <= idx && idx < len(a)
//@   ensures result1 <==> len(a) > 0
//@   ensures result1 ==> forall k int :: {a[k]} 0 <= k && k < len(a) ==> a[k] <= result0
//@   ensures result1 ==> exists k int :: 0 <= k && k < len(a) && a[k] == result0

//@ func MemberBad
//@   modifies nothing
//@   loop 1 invariant -1 <= idx && idx < len(a)
//@   loop 1 invariant forall y uint8 :: has(set, y) ==> set[y]
//@   loop 1 invariant forall k int :: {a[k]} 0 <= k && k <= idx ==> has(set, a[k])
//@   loop 1 invariant forall y uint8 :: has(set, y) ==> exists k int :: 0 <= k && k <= idx && a[k] == y
//@   ensures result <==> exists k int :: 0 <= k && k < len(a) && a[k] == x

//@ func Copy2Bad
//@   modifies nothing
//@   ensures len(result) == len(src)
//@   ensures forall k int :: 0 <= k && k < len(src) ==> result[k] == src[k]

//@ func PushBad
//@   requires len(s) < 1000
//@   ensures len(result) == len(s) + 1
//@   ensures result[len(s)] == x

//@ func SplitBad
//@   modifies nothing
//@   ensures err == nil <==> (0 <= n && n <= len(data))

//@ func (*P).SwapFrameBad
//@   requires p != nil
//@   modifies p.X, p.Y
//@   ensures p.X == old(p.Y) && p.Y == old(p.X)

//@ func UseSplitBad
//@   modifies nothing
