module toy

go 1.24.2
