package toy

import "errors"

func Abs(x int32) int32 {
	if x < 0 {
		return -x
	}
	return x
}

func First(b []byte) byte { return b[0] }

func FirstBad(b []byte) byte { return b[0] }

func Sum(b []byte) uint64 {
	var s uint64
	for _, v := range b {
		s += uint64(v)
	}
	return s
}

func Fill(b []byte, v byte) {
	for i := 0; i < len(b); i++ {
		b[i] = v
	}
}

func FillBad(b []byte, v byte) {
	for i := 0; i <= len(b); i++ {
		b[i] = v
	}
}

type P struct {
	X, Y int
	Buf  []byte
}

func (p *P) Swap() {
	p.X, p.Y = p.Y, p.X
}

func (p *P) SwapBad() {
	p.X, p.Y = p.Y, p.Y
}

func Split(data []byte, n int) (a, b []byte, err error) {
	if n < 0 || n > len(data) {
		return nil, data, errors.New("bad")
	}
	return data[:n], data[n:], nil
}

func Copy2(src []byte) []byte {
	dst := make([]byte, len(src))
	copy(dst, src)
	return dst
}

func Push(s []byte, x byte) []byte {
	return append(s, x)
}

func MaxOf(a []uint8) (uint8, bool) {
	if len(a) == 0 {
		return 0, false
	}
	m := a[0]
	for _, v := range a {
		if v > m {
			m = v
		}
	}
	return m, true
}

func Member(a []uint8, x uint8) bool {
	set := make(map[uint8]bool)
	for _, v := range a {
		set[v] = true
	}
	return set[x]
}

func UseSplit(data []byte) byte {
	a, _, err := Split(data, 1)
	if err != nil {
		return 0
	}
	return a[0]
}

func MaxOfBad(a []uint8) (uint8, bool) {
	if len(a) == 0 {
		return 0, false
	}
	m := a[0]
	for _, v := range a {
		if v < m {
			m = v
		}
	}
	return m, true
}

func MemberBad(a []uint8, x uint8) bool {
	set := make(map[uint8]bool)
	for _, v := range a {
		set[v] = true
	}
	return set[x+1]
}

func Copy2Bad(src []byte) []byte {
	dst := make([]byte, len(src))
	if len(src) > 3 {
		copy(dst, src[1:])
	} else {
		copy(dst, src)
	}
	return dst
}

func PushBad(s []byte, x byte) []byte {
	return append(s, x+1)
}

func SplitBad(data []byte, n int) (a, b []byte, err error) {
	if n < 0 || n >= len(data) {
		return nil, data, errors.New("bad")
	}
	return data[:n], data[n:], nil
}

// writes outside its frame
func (p *P) SwapFrameBad() {
	p.X, p.Y = p.Y, p.X
	p.Buf = nil
}

func UseSplitBad(data []byte) byte {
	a, _, err := Split(data, 0)
	if err != nil {
		return 0
	}
	return a[0]
}
