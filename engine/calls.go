package main

import (
	"fmt"
	"go/token"
	"go/types"
	"strings"

	"golang.org/x/tools/go/ssa"
)

type effect int

const (
	effNone effect = iota
	effSome
	effAll
)

// ---------------------------------------------------------------------------
// maps (ghost arrays per map object)
// ---------------------------------------------------------------------------

func (e *fnEnc) mapKeys(mt types.Type) (hasKey, valKey string, ks, vs *Sort) {
	m := mt.Underlying().(*types.Map)
	ks, vs = e.sortOf(m.Key()), e.sortOf(m.Elem())
	id := sanitize(ks.name) + "__" + sanitize(vs.name)
	hasKey = "maphas_" + sanitize(ks.name)
	valKey = "mapval_" + id
	mapCellSorts[hasKey] = &Sort{name: fmt.Sprintf("(Array %s Bool)", ks.name)}
	mapCellSorts[valKey] = &Sort{name: fmt.Sprintf("(Array %s %s)", ks.name, vs.name)}
	mapCellSorts["maplen"] = sortBV64
	return
}

func (e *fnEnc) mapInit(st *state, r string, mt types.Type) {
	hk, _, ks, _ := e.mapKeys(mt)
	hs := mapCellSorts[hk]
	e.setHeap(st, hk, hs, fmt.Sprintf("(store %s %s ((as const %s) false))", e.heap(st, hk, hs), r, hs.name))
	e.setHeap(st, "maplen", sortBV64, fmt.Sprintf("(store %s %s %s)", e.heap(st, "maplen", sortBV64), r, bvLit(64, 0)))
	_ = ks
}

func (e *fnEnc) lookup(st *state, v *ssa.Lookup) {
	x := e.val(v.X)
	if _, isMap := v.X.Type().Underlying().(*types.Map); !isMap {
		// string index
		i := e.toIndex(v.Index)
		e.oblige(st, "bounds", "", v.Pos(), app("bvult", i, app("strlen", x)))
		e.setVal(v, app("strbyte", x, i))
		return
	}
	hk, vk, _, vs := e.mapKeys(v.X.Type())
	k := e.val(v.Index)
	has := fmt.Sprintf("(select (select %s %s) %s)", e.heap(st, hk, mapCellSorts[hk]), x, k)
	// nil map lookups are legal and yield the zero value
	has = and(not(eq(x, "null")), has)
	val := fmt.Sprintf("(select (select %s %s) %s)", e.heap(st, vk, mapCellSorts[vk]), x, k)
	val = ite(has, val, e.V.ST.zeroValue(vs))
	if v.CommaOk {
		okn := e.define("mapok", sortBool, has)
		valn := e.define("mapval", vs, val)
		e.assumeLoadedWF(st, valn, v.X.Type().Underlying().(*types.Map).Elem())
		e.tuples[v] = []string{valn, okn}
		return
	}
	e.setVal(v, val)
	e.assumeLoadedWF(st, e.vals[v], v.Type())
}

func (e *fnEnc) mapUpdate(st *state, v *ssa.MapUpdate) {
	m := e.val(v.Map)
	e.oblige(st, "nilmap", "", v.Pos(), not(eq(m, "null")))
	if e.fc != nil && e.fc.ModSet && !e.fc.ModAll {
		e.frameCheck(st, m, v.Pos(), "mapupdate")
	}
	hk, vk, _, _ := e.mapKeys(v.Map.Type())
	k, val := e.val(v.Key), e.val(v.Value)
	hh := e.heap(st, hk, mapCellSorts[hk])
	vh := e.heap(st, vk, mapCellSorts[vk])
	e.setHeap(st, hk, mapCellSorts[hk], fmt.Sprintf("(store %s %s (store (select %s %s) %s true))", hh, m, hh, m, k))
	e.setHeap(st, vk, mapCellSorts[vk], fmt.Sprintf("(store %s %s (store (select %s %s) %s %s))", vh, m, vh, m, k, val))
	// length: unknown but consistent
	nl := e.declare("maplen", sortBV64)
	e.setHeap(st, "maplen", sortBV64, fmt.Sprintf("(store %s %s %s)", e.heap(st, "maplen", sortBV64), m, nl))
}

func (e *fnEnc) next(st *state, v *ssa.Next) {
	tup := v.Type().(*types.Tuple)
	ok := e.declare("nextok", sortBool)
	src := e.rangeSrc[v.Iter]
	var k, val string
	if v.IsString {
		k = e.declare("ri", sortBV64)
		val = e.declare("rr", bvSort(32))
		if src != nil {
			e.assume(st, implies(ok, app("bvult", k, app("strlen", e.val(src)))))
		}
	} else {
		kt, vt := tup.At(1).Type(), tup.At(2).Type()
		if !isInvalid(kt) {
			k = e.declareInput(st, "mk", kt)
		} else {
			k = "false"
		}
		if !isInvalid(vt) {
			val = e.declareInput(st, "mv", vt)
		} else {
			val = "false"
		}
		if src != nil && !isInvalid(kt) {
			hk, vk, _, _ := e.mapKeys(src.Type())
			m := e.val(src)
			e.assume(st, implies(ok, and(not(eq(m, "null")), fmt.Sprintf("(select (select %s %s) %s)", e.heap(st, hk, mapCellSorts[hk]), m, k))))
			if !isInvalid(vt) {
				e.assume(st, implies(ok, eq(val, fmt.Sprintf("(select (select %s %s) %s)", e.heap(st, vk, mapCellSorts[vk]), m, k))))
			}
		}
	}
	e.tuples[v] = []string{ok, k, val}
}

func isInvalid(t types.Type) bool {
	b, ok := t.(*types.Basic)
	return ok && b.Kind() == types.Invalid
}

func (e *fnEnc) selectInstr(st *state, v *ssa.Select) {
	tup := v.Type().(*types.Tuple)
	idx := e.declare("selidx", sortBV64)
	lo := 0
	if !v.Blocking {
		lo = -1
	}
	e.assume(st, and(app("bvsge", idx, bvLit(64, uint64(int64(lo)))), app("bvslt", idx, bvLit(64, uint64(len(v.States))))))
	// ghost log of pointers sent: case k chosen ==> value k was sent on channel k
	for k, sc := range v.States {
		if sc.Dir == types.SendOnly && sc.Send != nil && e.sortOf(sc.Send.Type()).kind == skRef {
			e.logSend(st, e.val(sc.Chan), e.val(sc.Send), eq(idx, bvLit(64, uint64(k))))
		}
	}
	res := []string{idx, e.declare("selok", sortBool)}
	for i := 2; i < tup.Len(); i++ {
		res = append(res, e.declareInput(st, "selrecv", tup.At(i).Type()))
	}
	e.tuples[v] = res
}

// ---------------------------------------------------------------------------
// calls
// ---------------------------------------------------------------------------

func (e *fnEnc) staticCallee(c *ssa.CallCommon) *ssa.Function {
	if c.IsInvoke() {
		return nil
	}
	switch f := c.Value.(type) {
	case *ssa.Function:
		return f
	case *ssa.MakeClosure:
		return f.Fn.(*ssa.Function)
	}
	return nil
}

func (e *fnEnc) calleeKey(c *ssa.CallCommon) string {
	if c.IsInvoke() {
		recv := c.Value.Type()
		return ifaceKey(recv, c.Method.Name())
	}
	if f := e.staticCallee(c); f != nil {
		return funcKey(f)
	}
	if k := fieldCallKey(c.Value); k != "" {
		return k
	}
	return "dynamic:" + c.Value.Type().String()
}

// fieldCallKey: a call through a function-typed struct field loaded right before the
// call, `x.f(args)`: "field:<pkg>.<Struct>.<f>".
func fieldCallKey(v ssa.Value) string {
	ld, ok := v.(*ssa.UnOp)
	if !ok || ld.Op != token.MUL {
		return ""
	}
	if g, isGlobal := ld.X.(*ssa.Global); isGlobal && g.Pkg != nil {
		// a call through a function-typed package-level variable: "var:<pkg>.<Name>"
		return "var:" + g.Pkg.Pkg.Path() + "." + g.Name()
	}
	fa, ok := ld.X.(*ssa.FieldAddr)
	if !ok {
		return ""
	}
	pt, ok := fa.X.Type().Underlying().(*types.Pointer)
	if !ok {
		return ""
	}
	named, ok := pt.Elem().(*types.Named)
	if !ok || named.Obj().Pkg() == nil {
		return ""
	}
	st, ok := named.Underlying().(*types.Struct)
	if !ok {
		return ""
	}
	return "field:" + named.Obj().Pkg().Path() + "." + named.Obj().Name() + "." + st.Field(fa.Field).Name()
}

func ifaceKey(recv types.Type, method string) string {
	s := types.TypeString(recv, nil)
	return s + "." + method
}

// contractFor finds the contract that applies to a call.
func (e *fnEnc) contractFor(c *ssa.CallCommon) *FuncContract {
	fc := e.contractFor0(c)
	if len(e.V.AssumeFrames) == 0 || (fc != nil && fc.ModSet) {
		return fc
	}
	// per-property environment assumption: the named callees do not write memory that existed
	// before the call (decoders, validators of other properties); reported in the evidence
	key := e.calleeKey(c)
	for _, pat0 := range e.V.AssumeFrames {
		pat := strings.TrimSuffix(pat0, ":recv")
		if strings.Contains(key, pat) {
			if cached, ok := e.V.frameContracts[key]; ok {
				return cached
			}
			var nc FuncContract
			if fc != nil {
				nc = *fc
			} else {
				nc = FuncContract{Key: key}
			}
			nc.ModSet = true
			if pat0 != pat {
				// "<name>:recv": a decoder-style method - it writes its receiver object (and
				// memory it allocates), nothing else that existed before the call
				callee := e.staticCallee(c)
				if callee == nil || callee.Signature.Recv() == nil || len(callee.Params) == 0 {
					continue
				}
				if _, isPtr := callee.Params[0].Type().Underlying().(*types.Pointer); !isPtr {
					nc.ModNone = true
				} else {
					nc.Modifies = []Expr{&EUnary{Op: "*", X: &EIdent{Name: callee.Params[0].Name()}}}
				}
				e.V.FrameAssumed[key+" (writes its receiver only)"] = true
			} else {
				nc.ModNone = true
				e.V.FrameAssumed[key] = true
			}
			e.V.frameContracts[key] = &nc
			return &nc
		}
	}
	return fc
}

func (e *fnEnc) contractFor0(c *ssa.CallCommon) *FuncContract {
	if c.IsInvoke() {
		return e.V.C.Ifaces[e.calleeKey(c)]
	}
	f := e.staticCallee(c)
	if f == nil {
		if k := fieldCallKey(c.Value); k != "" {
			return e.V.C.Funcs[k]
		}
		// a call through a value of a named function type (context.CancelFunc): "dynamic:<type>"
		return e.V.C.Funcs["dynamic:"+c.Value.Type().String()]
	}
	if fc := e.V.C.Funcs[funcKey(f)]; fc != nil {
		return fc
	}
	if o := f.Origin(); o != nil && o != f {
		if fc := e.V.C.Funcs[funcKey(o)]; fc != nil {
			return fc
		}
	}
	return nil
}

func (e *fnEnc) callEffect(c *ssa.CallCommon) effect {
	if fc := e.contractFor(c); fc != nil {
		if fc.ModNone || (fc.Pure && !fc.ModSet) {
			return effNone
		}
		if fc.ModSet && !fc.ModAll {
			return effSome
		}
		return effAll
	}
	if k := e.calleeKey(c); e.V.isKnownPure(k) {
		return effNone
	}
	return effAll
}

func (e *fnEnc) call(st *state, at ssa.Value, c *ssa.CallCommon, instr ssa.Instruction) {
	if bi, ok := c.Value.(*ssa.Builtin); ok {
		e.builtin(st, at, bi, c, instr)
		return
	}
	var args []tval
	if c.IsInvoke() {
		recv := e.val(c.Value)
		e.oblige(st, "nil", "invoke", c.Pos(), not(eq(recv, "nil_iface")))
		args = append(args, tval{term: recv, typ: c.Value.Type()})
	} else if e.staticCallee(c) == nil {
		fv := e.val(c.Value)
		e.oblige(st, "nil", "callfunc", c.Pos(), not(eq(fv, "null")))
	}
	for _, a := range c.Args {
		args = append(args, tval{term: e.val(a), typ: a.Type()})
	}
	fc := e.contractFor(c)
	callee := e.staticCallee(c)
	key := e.calleeKey(c)
	// host side of a callback: a call through a function-typed parameter for which this
	// function's contract states a guarantee
	if prm, isParam := c.Value.(*ssa.Parameter); isParam && e.fc != nil && len(e.fc.Callbacks[prm.Name()]) > 0 {
		cenv := e.contractEnv(st, e.entry, nil)
		for i, a := range args {
			cenv.names[fmt.Sprintf("arg%d", i)] = a
		}
		for i, g := range e.fc.Callbacks[prm.Name()] {
			t := cenv.evalBool(g.Expr)
			o := e.oblige(st, "callback-guarantee", fmt.Sprintf("%s[%s]", prm.Name(), labelOr(g.Label, i)), c.Pos(), t)
			o.Src = g.Src
		}
		e.havocAll(st)
		var results []tval
		rs := c.Signature().Results()
		for i := 0; i < rs.Len(); i++ {
			n := e.declare("r_cb", e.sortOf(rs.At(i).Type()))
			results = append(results, tval{term: n, typ: rs.At(i).Type()})
			e.assumeWF(st, n, rs.At(i).Type())
		}
		e.bindResults(at, results)
		return
	}
	if fc != nil && fc.Inline && callee != nil && callee.Blocks != nil && e.depth < 6 {
		e.inlineCall(st, at, c, callee, args)
		return
	}
	if mc, ok := c.Value.(*ssa.MakeClosure); ok && callee != nil && e.V.inlineClosures && e.depth < 3 {
		_ = mc
	}
	sig := c.Signature()
	// results
	var results []tval
	declRes := func(afterSt *state) {
		rs := sig.Results()
		for i := 0; i < rs.Len(); i++ {
			t := rs.At(i).Type()
			n := e.declare("r_"+sanitize(shortCallee(key)), e.sortOf(t))
			results = append(results, tval{term: n, typ: t})
		}
	}
	if fc == nil && callee != nil && (e.V.SweepSet[funcKey(callee)] || (e.V.Sweep && inRepo(callee))) && len(callee.Params) == len(args) {
		// swept callee: its default precondition (non-nil pointer/map parameters) is an
		// obligation here
		for i, p := range callee.Params {
			if defaultNonNil(p.Type()) {
				e.oblige(st, "call-pre", fmt.Sprintf("%s[non-nil:%s]", shortCallee(key), p.Name()), c.Pos(), not(eq(args[i].term, "null")))
			}
		}
	}
	if fc == nil {
		if !e.V.isKnownPure(key) {
			e.V.Assumed[key] = true
			e.checkFrameCall(st, c, key)
			e.havocAll(st)
		} else {
			e.V.ExternU["builtin-pure:"+key] = true
			e.bumpNext(st)
		}
		declRes(st)
		for _, r := range results {
			e.assumeWF(st, r.term, r.typ)
		}
		e.bindResults(at, results)
		return
	}
	fc.Used = true
	if fc.Extern {
		e.V.ExternU[key] = true
	} else if e.V.ContractUsed != nil {
		e.V.ContractUsed[key] = true
	}
	// callee environment: parameter names -> argument terms
	pre := st.clone()
	cenv := e.calleeEnv(pre, pre, c, callee, args)
	for i, r := range fc.Requires {
		t := cenv.evalBool(r.Expr)
		kind := "call-pre"
		if strings.HasPrefix(r.Label, "nil") {
			// a precondition that only says "the receiver / argument is not nil" is the callee's
			// own nil check moved to the call site: same kind as an inline nil check
			kind = "nil"
		}
		o := e.oblige(st, kind, fmt.Sprintf("%s[%s]", shortCallee(key), labelOr(r.Label, i)), c.Pos(), t)
		o.Src = r.Src
	}
	// callbacks: the closure passed for a function-typed parameter must accept whatever the
	// host guarantees; its effect is applied an unknown number of times
	cbHavoc := false
	cbPrecise := true // every callback literal has a contract with an explicit frame
	type cbEff struct {
		fc  *FuncContract
		env *env
	}
	var cbEffects []cbEff
	if len(fc.Callbacks) > 0 && callee != nil {
		for pi, prm := range callee.Params {
			gs := fc.Callbacks[prm.Name()]
			if len(gs) == 0 {
				continue
			}
			cbHavoc = true
			ai := pi
			if ai >= len(c.Args) {
				continue
			}
			mc := asClosure(c.Args[ai])
			if mc == nil {
				e.structureError(fmt.Sprintf("call of %s: the callback argument is not a function literal", shortCallee(key)))
				cbPrecise = false
				continue
			}
			cfn := mc.Fn.(*ssa.Function)
			cfc := e.V.contractOfFn(cfn)
			if cfc == nil {
				if !e.V.SweepSet[funcKey(cfn)] && !e.V.Sweep {
					e.V.Assumed["callback literal without contract: "+funcKey(cfn)] = true
				}
				cbPrecise = false
				continue
			}
			if !cfc.ModSet || cfc.ModAll {
				cbPrecise = false
			}
			cfc.Used = true
			// fresh callback arguments constrained by the host's guarantee
			var cbArgs []tval
			genv := e.calleeEnv(st, pre, c, callee, args)
			for k, cp := range cfn.Params {
				n := e.declareInput(st, "cbarg_"+cp.Name(), cp.Type())
				cbArgs = append(cbArgs, tval{term: n, typ: cp.Type()})
				genv.names[fmt.Sprintf("arg%d", k)] = cbArgs[k]
			}
			var gts []string
			for _, g := range gs {
				gts = append(gts, genv.evalBool(g.Expr))
			}
			renv := e.closureEnv(st, pre, mc, cbArgs)
			for i, r := range cfc.Requires {
				t := renv.evalBool(r.Expr)
				o := e.oblige(st, "callback-pre", fmt.Sprintf("%s[%s]", shortCallee(funcKey(cfn)), labelOr(r.Label, i)), c.Pos(), implies(and(gts...), t))
				o.Src = r.Src
			}
			cbEffects = append(cbEffects, cbEff{cfc, renv})
		}
	}
	// frame
	switch {
	case cbHavoc && cbPrecise && fc.ModSet && !fc.ModAll:
		// the host's own frame plus the frame of every callback literal, applied to the
		// state before the call (an unknown number of invocations writes at most that)
		if !fc.ModNone {
			e.checkFrameCallMods(st, c, fc, cenv)
			e.havocMods(st, fc, cenv)
		}
		for _, ce := range cbEffects {
			if !ce.fc.ModNone {
				e.checkFrameCallMods(st, c, ce.fc, ce.env)
				e.havocMods(st, ce.fc, ce.env)
			}
		}
		e.bumpNext(st)
		if fc.ModNone {
			// the host writes nothing itself: what every invocation of the literal preserves
			// (callback-stable) and every reflexive-transitive relation it establishes
			// (callback-relation) holds across the host call
			for _, ce := range cbEffects {
				post := *ce.env
				post.st = st
				post.old = pre
				for _, r := range ce.fc.Requires {
					if clauseMentionsParams(r.Expr, ce.env.fn) {
						continue
					}
					e.assume(st, post.evalBool(r.Expr))
				}
				for _, r := range ce.fc.Ensures {
					if strings.HasPrefix(r.Label, "transitive:") && !clauseMentionsParams(r.Expr, ce.env.fn) {
						e.assume(st, post.evalBool(r.Expr))
					}
				}
			}
		}
	case cbHavoc:
		e.checkFrameCall(st, c, key)
		e.havocAll(st)
		// What the callbacks require independently of their arguments held at the call
		// (callback-pre), is preserved by every invocation (callback-stable, proved with the
		// literal) and the host writes nothing itself: it holds afterwards.
		for _, ce := range cbEffects {
			post := *ce.env
			post.st = st
			for _, r := range ce.fc.Requires {
				if clauseMentionsParams(r.Expr, ce.env.fn) {
					continue
				}
				e.assume(st, post.evalBool(r.Expr))
			}
		}
	case fc.ModNone || (fc.Pure && !fc.ModSet):
		e.bumpNext(st)
	case fc.ModSet && !fc.ModAll:
		e.checkFrameCallMods(st, c, fc, cenv)
		e.havocMods(st, fc, cenv)
		e.bumpNext(st)
	default:
		e.checkFrameCall(st, c, key)
		e.havocAll(st)
	}
	// callback-sorted: the order the comparison literal defines holds afterwards
	if len(fc.SortedBy) > 0 && callee != nil {
		for pi, prm := range callee.Params {
			nexpr, ok := fc.SortedBy[prm.Name()]
			if !ok || pi >= len(c.Args) {
				continue
			}
			mc := asClosure(c.Args[pi])
			if mc == nil {
				continue
			}
			cfn := mc.Fn.(*ssa.Function)
			cfc := e.V.contractOfFn(cfn)
			if cfc == nil || len(cfn.Params) != 2 {
				continue
			}
			var rhs Expr
			for _, en := range cfc.Ensures {
				if b, isBin := en.Expr.(*EBinary); isBin && b.Op == "<==>" {
					if id, isId := b.X.(*EIdent); isId && id.Name == "result" {
						rhs = b.Y
						break
					}
				}
			}
			if rhs == nil {
				continue
			}
			e.ctr++
			qa, qb := fmt.Sprintf("q_sa_%d", e.ctr), fmt.Sprintf("q_sb_%d", e.ctr)
			it := cfn.Params[0].Type()
			// less(b, a): first parameter := b, second := a
			cenvS := e.closureEnv(st, pre, mc, []tval{{term: qb, typ: it}, {term: qa, typ: it}})
			cenvS.noDef = true
			lessBA := cenvS.evalBool(rhs)
			henv := e.calleeEnv(st, pre, c, callee, args)
			n := henv.coerceInt(henv.eval(nexpr))
			e.hasQuant = true
			body := fmt.Sprintf("(=> (and (bvsle #x0000000000000000 %s) (bvslt %s %s) (bvslt %s %s)) (not %s))", qa, qa, qb, qb, n.term, lessBA)
			// multi-pattern: the element reads at a and at b
			pa, pb := firstSelectWith(lessBA, qa, qb), firstSelectWith(lessBA, qb, qa)
			if pa != "" && pb != "" {
				body = fmt.Sprintf("(! %s :pattern (%s %s))", body, pa, pb)
			}
			e.assume(st, fmt.Sprintf("(forall ((%s (_ BitVec 64)) (%s (_ BitVec 64))) %s)", qa, qb, body))
			e.V.Assumed[fmt.Sprintf("sorted order after %s: forall a < b: !%s(b, a) with the literal's own postcondition", shortCallee(key), prm.Name())] = true
		}
	}
	declRes(st)
	for _, r := range results {
		e.assumeWF(st, r.term, r.typ)
	}
	post := e.calleeEnv(st, pre, c, callee, args)
	post.results = results
	post.cbApply = func(param string, cargs []tval) string {
		if callee == nil {
			panic(unsupported("contract: cb() at a call without a static callee"))
		}
		for pi, prm := range callee.Params {
			if prm.Name() != param || pi >= len(c.Args) {
				continue
			}
			mc := asClosure(c.Args[pi])
			if mc == nil {
				panic(unsupported("contract: cb(" + param + "): the argument is not a function literal"))
			}
			cfn := mc.Fn.(*ssa.Function)
			cfc := e.V.contractOfFn(cfn)
			if cfc != nil {
				for _, en := range cfc.Ensures {
					if b, isBin := en.Expr.(*EBinary); isBin && b.Op == "<==>" {
						if id, isId := b.X.(*EIdent); isId && id.Name == "result" {
							cfc.Used = true
							cenv := e.closureEnv(st, pre, mc, cargs)
							cenv.noDef = true
							e.V.Assumed[fmt.Sprintf("%s relates its result to what the literal passed for %s returns (the literal's own verified postcondition)", shortCallee(key), param)] = true
							return cenv.evalBool(b.Y)
						}
					}
				}
			}
			panic(unsupported("contract: cb(" + param + "): the literal " + funcKey(cfn) + " has no postcondition of the form `result <==> E`"))
		}
		panic(unsupported("contract: cb(" + param + "): no such parameter"))
	}
	post.resultNames = resultNames(sig, callee)
	if fc.Fresh {
		for _, r := range results {
			switch e.sortOf(r.typ).kind {
			case skRef:
				e.assume(st, or(eq(r.term, "null"), fmt.Sprintf("(>= (rootn %s) %s)", r.term, pre.next)))
			case skSlice:
				e.assume(st, or(eq(app("s_base", r.term), "null"), fmt.Sprintf("(>= (rootn (s_base %s)) %s)", r.term, pre.next)))
			}
		}
	}
	for _, en := range fc.Ensures {
		if en.Ghost {
			e.V.Assumed[fmt.Sprintf("ghost naming clause of %s: [%s] %s", key, en.Label, en.Src)] = true
		}
		t, ok := func() (t string, ok bool) {
			defer func() {
				if r := recover(); r != nil {
					if u, isU := r.(unsupported); isU && strings.Contains(string(u), "unknown type") {
						// the clause is about a dynamic type of a package this run did not load:
						// dropping an assumed fact is sound
						ok = false
						return
					}
					panic(r)
				}
			}()
			return post.evalBool(en.Expr), true
		}()
		if !ok {
			continue
		}
		if strings.Contains(t, "forall") || strings.Contains(t, "exists") {
			e.hasQuant = true
		}
		e.assume(st, t)
	}
	e.bindResults(at, results)
}

func (e *fnEnc) bumpNext(st *state) {
	nn := e.declare("next", &Sort{name: "Int"})
	e.assume(st, fmt.Sprintf("(>= %s %s)", nn, st.next))
	st.next = nn
}

func shortCallee(key string) string {
	if i := strings.LastIndex(key, "/"); i >= 0 {
		key = key[i+1:]
	}
	return strings.NewReplacer("(", "", ")", "", "*", "").Replace(key)
}

func resultNames(sig *types.Signature, callee *ssa.Function) []string {
	var out []string
	rs := sig.Results()
	for i := 0; i < rs.Len(); i++ {
		out = append(out, rs.At(i).Name())
	}
	return out
}

func (e *fnEnc) bindResults(at ssa.Value, results []tval) {
	if at == nil {
		return
	}
	switch len(results) {
	case 0:
	case 1:
		e.vals[at] = results[0].term
	default:
		var ts []string
		for _, r := range results {
			ts = append(ts, r.term)
		}
		e.tuples[at] = ts
	}
}

// checkFrameCall: a caller that promises `modifies nothing` (or a list) may not call
// something that may write arbitrary memory.
func (e *fnEnc) checkFrameCall(st *state, c *ssa.CallCommon, key string) {
	if e.fc == nil || !e.fc.ModSet || e.fc.ModAll {
		return
	}
	e.oblige(st, "frame", "call:"+shortCallee(key), c.Pos(), "false")
}

func (e *fnEnc) checkFrameCallMods(st *state, c *ssa.CallCommon, fc *FuncContract, cenv *env) {
	if e.fc == nil || !e.fc.ModSet || e.fc.ModAll {
		return
	}
	for _, m := range fc.Modifies {
		addrs := cenv.modAddrs(m)
		for _, a := range addrs {
			switch {
			case a.ghostFlag != "":
			case a.mapObj != "":
				e.frameCheck(st, a.mapObj, c.Pos(), "call:"+shortCallee(fc.Key))
			case a.region != "":
				e.frameCheckRegion(st, a.region, c.Pos(), "call:"+shortCallee(fc.Key))
			default:
				for _, leaf := range structLeaves(a.addr, a.typ) {
					e.frameCheck(st, leaf, c.Pos(), "call:"+shortCallee(fc.Key))
				}
			}
		}
	}
}

// structLeaves: a struct-valued region is written field by field (nested structs expanded);
// anything else is one cell (an array is checked at its own address, as a whole).
func structLeaves(addr string, t types.Type) []string {
	if t != nil {
		if u, ok := t.Underlying().(*types.Struct); ok {
			var out []string
			for i := 0; i < u.NumFields(); i++ {
				out = append(out, structLeaves(fldAddr(addr, i), u.Field(i).Type())...)
			}
			return out
		}
	}
	return []string{addr}
}

// havocMods replaces the cells named in a callee's modifies clause by unknowns.
func (e *fnEnc) havocMods(st *state, fc *FuncContract, cenv *env) {
	for _, m := range fc.Modifies {
		for _, a := range cenv.modAddrs(m) {
			if a.ghostFlag != "" {
				mapCellSorts["gflag"] = sortBool
				nv := e.declare("gflag", sortBool)
				old := fmt.Sprintf("(select %s %s)", e.heap(st, "gflag", sortBool), a.ghostFlag)
				e.assume(st, implies(old, nv)) // monotone
				e.setHeap(st, "gflag", sortBool, fmt.Sprintf("(store %s %s %s)", e.heap(st, "gflag", sortBool), a.ghostFlag, nv))
				continue
			}
			if a.mapObj != "" {
				hk, vk, _, _ := e.mapKeys(a.mapTyp)
				hs, vs := mapCellSorts[hk], mapCellSorts[vk]
				nhas := e.declare("mhas", &Sort{name: hs.name})
				nval := e.declare("mval", &Sort{name: vs.name})
				e.setHeap(st, hk, hs, fmt.Sprintf("(store %s %s %s)", e.heap(st, hk, hs), a.mapObj, nhas))
				e.setHeap(st, vk, vs, fmt.Sprintf("(store %s %s %s)", e.heap(st, vk, vs), a.mapObj, nval))
				nl := e.declare("maplen", sortBV64)
				e.setHeap(st, "maplen", sortBV64, fmt.Sprintf("(store %s %s %s)", e.heap(st, "maplen", sortBV64), a.mapObj, nl))
				continue
			}
			if a.region != "" {
				// whole region of a slice: H' = H outside the region
				es := a.sort
				key := es.heapKey()
				old := e.heap(st, key, es)
				nh := e.declare("Hr_"+key, &Sort{name: "(Array Ref " + es.name + ")"})
				e.hasQuant = true
				e.emit(fmt.Sprintf("(assert (forall ((a Ref)) (! (=> (not (in_slice a %s)) (= (select %s a) (select %s a))) :pattern ((select %s a)))))", a.region, nh, old, nh))
				st.heap[key] = nh
				continue
			}
			e.havocCell(st, a.addr, a.typ)
		}
	}
}

func (e *fnEnc) havocCell(st *state, addr string, t types.Type) {
	switch u := t.Underlying().(type) {
	case *types.Struct:
		for i := 0; i < u.NumFields(); i++ {
			e.havocCell(st, fldAddr(addr, i), u.Field(i).Type())
		}
		return
	case *types.Array:
		if u.Len() <= 64 {
			for i := int64(0); i < u.Len(); i++ {
				e.havocCell(st, idxAddr(addr, bvLit(64, uint64(i))), u.Elem())
			}
			return
		}
		// a large array: the cells below the address become unknown, everything else stays
		e.bigHavoc(st, addr, t)
		return
	}
	s := e.sortOf(t)
	v := e.declare("hv", s)
	e.assumeWF(st, v, t)
	e.storeValue(st, addr, t, v)
}

// ---------------------------------------------------------------------------
// builtins
// ---------------------------------------------------------------------------

func (e *fnEnc) builtin(st *state, at ssa.Value, bi *ssa.Builtin, c *ssa.CallCommon, instr ssa.Instruction) {
	switch bi.Name() {
	case "len":
		x := e.val(c.Args[0])
		switch u := c.Args[0].Type().Underlying().(type) {
		case *types.Slice:
			e.setVal(at, app("s_len", x))
		case *types.Basic:
			e.setVal(at, app("strlen", x))
		case *types.Map:
			e.setVal(at, ite(eq(x, "null"), bvLit(64, 0), fmt.Sprintf("(select %s %s)", e.heap(st, "maplen", sortBV64), x)))
			mapCellSorts["maplen"] = sortBV64
			e.assume(st, app("bvule", e.vals[at], "#x0000010000000000"))
		case *types.Chan:
			n := e.declare("chanlen", sortBV64)
			e.assume(st, app("bvule", n, e.chanCap(x)))
			e.vals[at] = n
		case *types.Array:
			e.vals[at] = bvLit(64, uint64(u.Len()))
		case *types.Pointer:
			e.vals[at] = bvLit(64, uint64(u.Elem().Underlying().(*types.Array).Len()))
		default:
			e.unsupported("len of %s", c.Args[0].Type())
		}
	case "cap":
		x := e.val(c.Args[0])
		switch u := c.Args[0].Type().Underlying().(type) {
		case *types.Slice:
			e.setVal(at, app("s_cap", x))
		case *types.Chan:
			e.vals[at] = e.chanCap(x)
		case *types.Array:
			e.vals[at] = bvLit(64, uint64(u.Len()))
		default:
			e.unsupported("cap of %s", c.Args[0].Type())
		}
	case "append":
		e.appendBuiltin(st, at, c)
	case "copy":
		e.copyBuiltin(st, at, c)
	case "delete":
		m := e.val(c.Args[0])
		hk, _, _, _ := e.mapKeys(c.Args[0].Type())
		hh := e.heap(st, hk, mapCellSorts[hk])
		k := e.val(c.Args[1])
		e.setHeap(st, hk, mapCellSorts[hk], ite(eq(m, "null"), hh, fmt.Sprintf("(store %s %s (store (select %s %s) %s false))", hh, m, hh, m, k)))
		nl := e.declare("maplen", sortBV64)
		e.setHeap(st, "maplen", sortBV64, fmt.Sprintf("(store %s %s %s)", e.heap(st, "maplen", sortBV64), m, nl))
	case "min", "max":
		t := c.Args[0].Type()
		acc := e.val(c.Args[0])
		for _, a := range c.Args[1:] {
			x := e.val(a)
			var lt string
			if isSigned(t) {
				lt = app("bvslt", x, acc)
			} else {
				lt = app("bvult", x, acc)
			}
			if bi.Name() == "max" {
				acc = ite(lt, acc, x)
			} else {
				acc = ite(lt, x, acc)
			}
		}
		e.setVal(at, acc)
	case "panic":
		e.oblige(st, "panic", "", c.Pos(), "false")
	case "print", "println":
	case "recover":
		e.vals[at] = "nil_iface"
	case "close":
	case "clear":
		e.havocAll(st)
	case "ssa:wrapnilchk":
		x := e.val(c.Args[0])
		e.oblige(st, "nil", "wrapnilchk", c.Pos(), not(eq(x, "null")))
		e.vals[at] = x
	default:
		e.unsupported("builtin %s", bi.Name())
	}
}

func (e *fnEnc) chanCap(x string) string {
	e.V.needChanCap = true
	return app("chancap", x)
}

// appendBuiltin models append(s, t...) exactly with respect to the in-place /
// reallocate decision; the new capacity is only constrained to be >= the new length.
func (e *fnEnc) appendBuiltin(st *state, at ssa.Value, c *ssa.CallCommon) {
	s := e.val(c.Args[0])
	sl := c.Args[0].Type().Underlying().(*types.Slice)
	es := e.sortOf(sl.Elem())
	var tlen string
	var tsl string
	isStr := false
	if len(c.Args) < 2 {
		e.vals[at] = s
		return
	}
	tsl = e.val(c.Args[1])
	if isString(c.Args[1].Type()) {
		isStr = true
		tlen = app("strlen", tsl)
	} else {
		tlen = app("s_len", tsl)
	}
	if isNilConst(c.Args[1]) {
		e.vals[at] = s
		return
	}
	constN := e.constSliceLen(c.Args[1])
	if constN >= 0 {
		tlen = bvLit(64, uint64(constN))
	}
	newlen := e.define("applen", sortBV64, app("bvadd", app("s_len", s), tlen))
	inplace := e.define("inplace", sortBool, app("bvule", newlen, app("s_cap", s)))
	nbase := e.alloc(st, "app")
	ncap := e.declare("appcap", sortBV64)
	e.assume(st, and(app("bvuge", ncap, newlen), app("bvule", ncap, "#x0000010000000000")))
	// length overflow (would panic "growslice: len out of range")
	e.oblige(st, "make-len", "append", c.Pos(), app("bvule", newlen, "#x0000800000000000"))
	// opaque constant (not a macro) so that it can appear in quantifier patterns
	res := e.declare("appres", sortSlice)
	e.emit(fmt.Sprintf("(assert (= %s_b %s))\n(assert (= %s_o %s))\n(assert (= %s_l %s))\n(assert (= %s_c %s))",
		res, ite(inplace, app("s_base", s), nbase),
		res, ite(inplace, app("s_off", s), bvLit(64, 0)),
		res, newlen,
		res, ite(inplace, app("s_cap", s), ncap)))
	e.vals[at] = res
	if es.kind == skStruct || es.kind == skArray {
		e.appendStructElems(st, c, s, tsl, constN, inplace, nbase, res, sl.Elem())
		return
	}
	key := es.heapKey()
	if key == "" {
		e.unsupported("append of element type %s", sl.Elem())
	}
	h := e.heap(st, key, es)
	// frame: an in-place append writes the spare capacity of s
	if e.fc != nil && e.fc.ModSet && !e.fc.ModAll {
		allowed := []string{fmt.Sprintf("(>= (rootn (s_base %s)) %s)", s, e.entry.next)}
		if !e.fc.ModNone {
			written := fmt.Sprintf("(mkslice %s %s %s %s)", app("s_base", s), app("bvadd", app("s_off", s), app("s_len", s)), tlen, tlen)
			menv := e.contractEnv(e.entry, e.entry, nil)
			for _, m := range e.fc.Modifies {
				allowed = append(allowed, menv.regionInModifies(m, written))
			}
		}
		e.frameCheck2(st, implies(and(inplace, not(eq(tlen, bvLit(64, 0)))), or(allowed...)), c.Pos(), "append")
	}
	// copied prefix of a reallocated result (fact about a fresh object)
	e.hasQuant = true
	e.assume(st, implies(not(inplace), fmt.Sprintf("(forall ((ai (_ BitVec 64))) (! (=> (bvult ai (s_len %s)) (= (select %s (idx %s ai)) (select %s (idx (s_base %s) (bvadd (s_off %s) ai))))) :pattern ((select %s (idx %s ai)))))", s, h, nbase, h, s, s, h, nbase)))
	if constN >= 0 && constN <= 8 && !isStr {
		// small constant number of elements: plain stores
		term := h
		for i := 0; i < constN; i++ {
			src := fmt.Sprintf("(select %s (idx (s_base %s) %s))", h, tsl, bvadd(app("s_off", tsl), bvLit(64, uint64(i))))
			dst := fmt.Sprintf("(idx (s_base %s) (bvadd (s_off %s) (bvadd (s_len %s) %s)))", res, res, s, bvLit(64, uint64(i)))
			if i == 0 {
				dst = fmt.Sprintf("(idx (s_base %s) (bvadd (s_off %s) (s_len %s)))", res, res, s)
			}
			term = fmt.Sprintf("(store %s %s %s)", term, dst, src)
		}
		e.setHeap(st, key, es, term)
		e.appendPrefixFact(st, key, es, h, s, res)
		return
	}
	// general case: region copy
	nh := e.declare("Happ_"+key, &Sort{name: "(Array Ref " + es.name + ")"})
	var srcCell string
	if isStr {
		srcCell = fmt.Sprintf("(strbyte %s (bvsub (idx_i a) (bvadd (s_off %s) (s_len %s))))", tsl, res, s)
	} else {
		srcCell = fmt.Sprintf("(select %s (idx (s_base %s) (bvadd (s_off %s) (bvsub (idx_i a) (bvadd (s_off %s) (s_len %s))))))", h, tsl, tsl, res, s)
	}
	region := fmt.Sprintf("(and ((_ is idx) a) (= (idx_b a) (s_base %s)) (bvule (bvadd (s_off %s) (s_len %s)) (idx_i a)) (bvult (idx_i a) (bvadd (s_off %s) %s)))", res, res, s, res, newlen)
	e.emit(fmt.Sprintf("(assert (forall ((a Ref)) (! (= (select %s a) (ite %s %s (select %s a))) :pattern ((select %s a)))))", nh, region, srcCell, h, nh))
	st.heap[key] = nh
	e.appendPrefixFact(st, key, es, h, s, res)
	// the appended elements, indexed from the result (consequence, stated for matching)
	if !isStr {
		e.assume(st, fmt.Sprintf("(forall ((ai (_ BitVec 64))) (! (=> (bvult ai %s) (= (select %s (idx (s_base %s) (bvadd (s_off %s) (bvadd (s_len %s) ai)))) (select %s (idx (s_base %s) (bvadd (s_off %s) ai))))) :pattern ((select %s (idx (s_base %s) (bvadd (s_off %s) (bvadd (s_len %s) ai))))) :pattern ((select %s (idx (s_base %s) (bvadd (s_off %s) ai))))))",
			tlen, nh, res, res, s, h, tsl, tsl, nh, res, res, s, h, tsl, tsl))
	}
}

// appendPrefixFact: the first len(s) elements of the result of append(s, ...) are the
// elements of s, whether the append was in place or reallocated (a consequence of the
// exact model, stated uniformly so that instantiation needs no case split).
func (e *fnEnc) appendPrefixFact(st *state, key string, es *Sort, hOld, s, res string) {
	hNew := e.heap(st, key, es)
	e.hasQuant = true
	e.assume(st, fmt.Sprintf("(forall ((ai (_ BitVec 64))) (! (=> (bvult ai (s_len %s)) (= (select %s (idx (s_base %s) (bvadd (s_off %s) ai))) (select %s (idx (s_base %s) (bvadd (s_off %s) ai))))) :pattern ((select %s (idx (s_base %s) (bvadd (s_off %s) ai)))) :pattern ((select %s (idx (s_base %s) (bvadd (s_off %s) ai))))))",
		s, hNew, res, res, hOld, s, s, hNew, res, res, hOld, s, s))
}

func (e *fnEnc) frameCheck2(st *state, cond string, pos token.Pos, what string) {
	e.oblige(st, "frame", what, pos, cond)
}

func (e *fnEnc) appendStructElems(st *state, c *ssa.CallCommon, s, tsl string, constN int, inplace, nbase, res string, et types.Type) {
	// element-wise struct copies: supported for a single appended element only; the
	// copied prefix on reallocation is stated per flattened cell sort.
	if constN != 1 {
		e.unsupported("append of %d struct elements", constN)
	}
	e.copyPrefixFacts(st, s, nbase, inplace, et, "")
	src := e.loadValue(st, fmt.Sprintf("(idx (s_base %s) (s_off %s))", tsl, tsl), et)
	dst := fmt.Sprintf("(idx (s_base %s) (bvadd (s_off %s) (s_len %s)))", res, res, s)
	e.storeValue(st, dst, et, src)
}

// copyPrefixFacts: for a reallocated append of struct elements, every flattened cell of
// the first len(s) elements of the new array equals the old one.
func (e *fnEnc) copyPrefixFacts(st *state, s, nbase, inplace string, t types.Type, path string) {
	var rec func(t types.Type, wrap func(string) string)
	rec = func(t types.Type, wrap func(string) string) {
		switch u := t.Underlying().(type) {
		case *types.Struct:
			for i := 0; i < u.NumFields(); i++ {
				i := i
				rec(u.Field(i).Type(), func(b string) string { return fldAddr(wrap(b), i) })
			}
		case *types.Array:
			if u.Len() > 64 {
				return
			}
			for i := int64(0); i < u.Len(); i++ {
				i := i
				rec(u.Elem(), func(b string) string { return idxAddr(wrap(b), bvLit(64, uint64(i))) })
			}
		default:
			cs := e.sortOf(t)
			key := cs.heapKey()
			if key == "" {
				return
			}
			h := e.heap(st, key, cs)
			e.hasQuant = true
			newCell := wrap(fmt.Sprintf("(idx %s ai)", nbase))
			oldCell := wrap(fmt.Sprintf("(idx (s_base %s) (bvadd (s_off %s) ai))", s, s))
			e.assume(st, implies(not(inplace), fmt.Sprintf("(forall ((ai (_ BitVec 64))) (! (=> (bvult ai (s_len %s)) (= (select %s %s) (select %s %s))) :pattern ((select %s %s))))", s, h, newCell, h, oldCell, h, newCell)))
		}
	}
	rec(t, func(b string) string { return b })
}

// constSliceLen recognises the varargs pattern `slice (new [k]T)[:]` and returns k, else -1.
func (e *fnEnc) constSliceLen(v ssa.Value) int {
	sl, ok := v.(*ssa.Slice)
	if !ok || sl.Low != nil || sl.High != nil || sl.Max != nil {
		return -1
	}
	if p, ok := sl.X.Type().Underlying().(*types.Pointer); ok {
		if a, ok := p.Elem().Underlying().(*types.Array); ok {
			return int(a.Len())
		}
	}
	return -1
}

func (e *fnEnc) copyBuiltin(st *state, at ssa.Value, c *ssa.CallCommon) {
	dst := e.val(c.Args[0])
	src := e.val(c.Args[1])
	sl := c.Args[0].Type().Underlying().(*types.Slice)
	es := e.sortOf(sl.Elem())
	key := es.heapKey()
	if key == "" {
		e.unsupported("copy of element type %s", sl.Elem())
	}
	var slen string
	isStr := isString(c.Args[1].Type())
	if isStr {
		slen = app("strlen", src)
	} else {
		slen = app("s_len", src)
	}
	n := e.define("copyn", sortBV64, ite(app("bvult", slen, app("s_len", dst)), slen, app("s_len", dst)))
	if at != nil {
		e.vals[at] = n
	}
	h := e.heap(st, key, es)
	if e.fc != nil && e.fc.ModSet && !e.fc.ModAll {
		cond := or(eq(n, bvLit(64, 0)), fmt.Sprintf("(>= (rootn (s_base %s)) %s)", dst, e.entry.next))
		if !e.fc.ModNone {
			env := e.contractEnv(e.entry, e.entry, nil)
			var alts []string
			for _, m := range e.fc.Modifies {
				alts = append(alts, env.regionInModifies(m, dst))
			}
			cond = or(append([]string{cond}, alts...)...)
		}
		e.oblige(st, "frame", "copy", c.Pos(), cond)
	}
	nh := e.declare("Hcp_"+key, &Sort{name: "(Array Ref " + es.name + ")"})
	var srcCell string
	if isStr {
		srcCell = fmt.Sprintf("(strbyte %s (bvsub (idx_i a) (s_off %s)))", src, dst)
	} else {
		srcCell = fmt.Sprintf("(select %s (idx (s_base %s) (bvadd (s_off %s) (bvsub (idx_i a) (s_off %s)))))", h, src, src, dst)
	}
	region := fmt.Sprintf("(and ((_ is idx) a) (= (idx_b a) (s_base %s)) (bvule (s_off %s) (idx_i a)) (bvult (idx_i a) (bvadd (s_off %s) %s)))", dst, dst, dst, n)
	e.hasQuant = true
	e.emit(fmt.Sprintf("(assert (forall ((a Ref)) (! (= (select %s a) (ite %s %s (select %s a))) :pattern ((select %s a)))))", nh, region, srcCell, h, nh))
	st.heap[key] = nh
}

// ---------------------------------------------------------------------------
// go, defer
// ---------------------------------------------------------------------------

func (e *fnEnc) goStmt(st *state, v *ssa.Go) {
	// The spawned function's contract is applied at the spawn point (DESIGN §3.7).
	e.call(st, nil, v.Common(), v)
}

func (e *fnEnc) runDefers(st *state, v *ssa.RunDefers) {
	for i := len(e.defers) - 1; i >= 0; i-- {
		d := e.defers[i]
		// the defer ran on this path iff its activation flag is set; apply the call's
		// effect under that guard by executing it on a cloned state and merging.
		act := e.deferSt[d]
		sub := st.clone()
		sub.reach = and(st.reach, act)
		e.call(sub, nil, d.Common(), d)
		e.mergeInto(st, sub, act)
	}
}

// mergeInto merges sub (taken when cond) into st (taken otherwise).
func (e *fnEnc) mergeInto(st, sub *state, cond string) {
	keys := map[string]bool{}
	for k := range st.heap {
		keys[k] = true
	}
	for k := range sub.heap {
		keys[k] = true
	}
	if sub.epoch != st.epoch {
		// after a havoc in the deferred call every heap is unknown on that path
		for _, k := range sortedKeys(keys) {
			cell := e.cellSortOfKey(k)
			a, b := e.heap(sub, k, cell), e.heap(st, k, cell)
			e.setHeap(st, k, cell, ite(cond, a, b))
		}
		e.epochCtr++
		// keys not yet materialised: keep st's epoch for the not-taken path but they may
		// have been havoc'd on the taken path, so move to a fresh epoch (unknown) — sound.
		st.epoch = e.epochCtr
	} else {
		for _, k := range sortedKeys(keys) {
			cell := e.cellSortOfKey(k)
			a, b := e.heap(sub, k, cell), e.heap(st, k, cell)
			if a != b {
				e.setHeap(st, k, cell, ite(cond, a, b))
			}
		}
	}
	if sub.next != st.next {
		st.next = e.define("next", &Sort{name: "Int"}, ite(cond, sub.next, st.next))
	}
}

// ---------------------------------------------------------------------------
// inlining
// ---------------------------------------------------------------------------

func (e *fnEnc) inlineCall(st *state, at ssa.Value, c *ssa.CallCommon, callee *ssa.Function, args []tval) {
	e.unsupported("inline call of %s not implemented", callee.Name())
}

// knownPure: functions of the standard library and dependencies that neither write
// caller-visible memory nor panic for any argument (reviewed by hand; listed in the
// evidence as assumptions whenever used).
var knownPurePrefixes = []string{
	"fmt.Errorf", "fmt.Sprintf", "fmt.Sprint", "errors.New", "errors.Is", "errors.As", "errors.Unwrap",
	"bytes.Equal", "bytes.Compare", "bytes.HasPrefix",
	"strings.", "strconv.",
	"(github.com/ethereum/go-ethereum/log.Logger)", "github.com/ethereum/go-ethereum/log.",
	"(*github.com/ethereum/go-ethereum/metrics.",
	"(github.com/ethereum/go-ethereum/metrics.", "github.com/ethereum/go-ethereum/metrics.",
	"time.Now", "time.Since", "(time.Time).", "(time.Duration).",
	"(*sync.Mutex).", "(*sync.RWMutex).",
	"github.com/ethereum/go-ethereum/common/hexutil.Encode",
	"(github.com/ethereum/go-ethereum/common.Hash).", "(github.com/ethereum/go-ethereum/p2p/enode.ID).",
	"github.com/ethereum/go-ethereum/p2p/enode.LogDist", "github.com/ethereum/go-ethereum/p2p/enode.DistCmp",
	"github.com/ethereum/go-ethereum/p2p/enr.IsNotFound",
	"(*github.com/ethereum/go-ethereum/p2p/enode.Node).ID", "(*github.com/ethereum/go-ethereum/p2p/enode.Node).Seq",
	"(*github.com/ethereum/go-ethereum/p2p/enode.Node).IP", "(*github.com/ethereum/go-ethereum/p2p/enode.Node).UDP",
	"(*github.com/ethereum/go-ethereum/p2p/enode.Node).String", "(*github.com/ethereum/go-ethereum/p2p/enode.Node).IPAddr",
	"(*github.com/ethereum/go-ethereum/p2p/enode.Node).Record",
	"crypto/sha256.Sum256", "github.com/ethereum/go-ethereum/crypto.Keccak256",
	"(*github.com/holiman/uint256.Int).Cmp", "(*github.com/holiman/uint256.Int).Gt", "(*github.com/holiman/uint256.Int).Lt",
	"(*github.com/holiman/uint256.Int).Eq", "(*github.com/holiman/uint256.Int).IsZero",
	"(*go.opentelemetry.io", "context.",
}

func (V *Verifier) isKnownPure(key string) bool {
	for _, p := range knownPurePrefixes {
		if strings.HasPrefix(key, p) {
			return true
		}
	}
	return false
}

// frameCheckRegion: a callee writes all elements of a slice; the caller must be allowed to.
func (e *fnEnc) frameCheckRegion(st *state, sl string, pos token.Pos, what string) {
	if e.fc == nil || !e.fc.ModSet || e.fc.ModAll {
		return
	}
	cond := or(eq(app("s_len", sl), bvLit(64, 0)), fmt.Sprintf("(>= (rootn (s_base %s)) %s)", sl, e.entry.next))
	if !e.fc.ModNone {
		env := e.contractEnv(e.entry, e.entry, nil)
		var alts []string
		for _, m := range e.fc.Modifies {
			alts = append(alts, env.regionInModifies(m, sl))
		}
		cond = or(append([]string{cond}, alts...)...)
	}
	e.oblige(st, "frame", what, pos, cond)
}

func asClosure(v ssa.Value) *ssa.MakeClosure {
	for {
		switch x := v.(type) {
		case *ssa.MakeClosure:
			return x
		case *ssa.ChangeType:
			v = x.X
		default:
			return nil
		}
	}
}

// closureEnv evaluates a function literal's contract at the place where the literal is
// passed: parameters are the given argument terms, captured variables are the bindings.
func (e *fnEnc) closureEnv(st, old *state, mc *ssa.MakeClosure, args []tval) *env {
	cfn := mc.Fn.(*ssa.Function)
	en := &env{e: e, st: st, old: old, names: map[string]tval{}, fvAddrs: map[string]tval{}, fvSrc: map[string]ssa.Value{}, fn: cfn}
	if cfn.Pkg != nil {
		en.pkg = cfn.Pkg.Pkg
	} else if cfn.Parent() != nil && cfn.Parent().Pkg != nil {
		en.pkg = cfn.Parent().Pkg.Pkg
	}
	for i, p := range cfn.Params {
		if i < len(args) {
			en.names[p.Name()] = args[i]
		}
	}
	for i, fv := range cfn.FreeVars {
		if i < len(mc.Bindings) {
			en.fvAddrs[fv.Name()] = tval{term: e.val(mc.Bindings[i]), typ: fv.Type()}
			en.fvSrc[fv.Name()] = mc.Bindings[i]
		}
	}
	return en
}

func inRepo(f *ssa.Function) bool {
	for f.Parent() != nil {
		f = f.Parent()
	}
	return f.Pkg != nil && strings.HasPrefix(f.Pkg.Pkg.Path(), modPrefix())
}

func (e *fnEnc) logSend(st *state, ch, val, cond string) {
	cs := &Sort{name: "(Array Ref Bool)"}
	mapCellSorts["sentlog"] = cs
	h := e.heap(st, "sentlog", cs)
	e.setHeap(st, "sentlog", cs, ite(cond, fmt.Sprintf("(store %s %s (store (select %s %s) %s true))", h, ch, h, ch, val), h))
}

// firstSelectWith: the first (select ...) subterm of t that mentions `with` and not `without`.
func firstSelectWith(t, with, without string) string {
	fs, err := parseSexps(t)
	if err != nil || len(fs) != 1 {
		return ""
	}
	var found string
	var walk func(x *sx)
	walk = func(x *sx) {
		if x.list == nil || found != "" {
			return
		}
		if x.head() == "select" && mentions(x, with) && !mentions(x, without) {
			found = x.String()
			return
		}
		for _, c := range x.list {
			walk(c)
		}
	}
	walk(fs[0])
	return found
}

// contractOfFn: the contract keyed by the function, or - for an instance of a generic function
// (or a literal inside one) - by the generic function it was instantiated from.
func (V *Verifier) contractOfFn(fn *ssa.Function) *FuncContract {
	if fc := V.C.Funcs[funcKey(fn)]; fc != nil {
		return fc
	}
	if o := fn.Origin(); o != nil && o != fn {
		return V.C.Funcs[funcKey(o)]
	}
	return nil
}
