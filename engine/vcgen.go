package main

import (
	"fmt"
	"regexp"
	"go/ast"
	"go/token"
	"go/types"
	"sort"
	"strings"

	"golang.org/x/tools/go/ast/astutil"
	"golang.org/x/tools/go/ssa"
)

// ---------------------------------------------------------------------------
// Verifier: global state of one run
// ---------------------------------------------------------------------------

type Verifier struct {
	P        *Program
	C        *Contracts
	ST       *sortTable
	Assumed  map[string]bool // callees used with the default (havoc, assumed no-panic) contract
	ContractUsed map[string]bool // non-extern contracts applied at call sites
	PropID       string          // the property being checked (scopes clauses labelled [Cxx:...])
	ForeignClauses map[string]bool
	AssumeFrames []string        // per property: callees (substring of the key) assumed to modify nothing that existed before the call
	FrameAssumed map[string]bool
	frameContracts map[string]*FuncContract
	ExternU  map[string]bool // extern contracts actually applied
	Warnings []string
	Sweep    bool // no contract needed: requires true, safety obligations only
	globals  map[*ssa.Global]string
	strConst map[string]string
	extraDecl []string
	ufDecl   map[string]bool
	needFloat, needChanCap, inlineClosures bool
	axiomsDone  bool
	axiomTerms  []string
	axiomNames  []string
	axiomErrs   []string
	GlobalsUsed map[string]bool
	autoOff     map[string]bool
	SweepSet    map[string]bool
	TypeInvUsed map[string]bool
	IgnoreKinds map[string]bool
}

func newVerifier(P *Program, C *Contracts) *Verifier {
	return &Verifier{P: P, C: C, ST: newSortTable(), Assumed: map[string]bool{}, ContractUsed: map[string]bool{}, ForeignClauses: map[string]bool{}, FrameAssumed: map[string]bool{}, frameContracts: map[string]*FuncContract{}, ExternU: map[string]bool{},
		globals: map[*ssa.Global]string{}, strConst: map[string]string{"": "str_empty"}, ufDecl: map[string]bool{}, GlobalsUsed: map[string]bool{}, autoOff: map[string]bool{}, TypeInvUsed: map[string]bool{}}
}

type Obligation struct {
	Name       string
	Kind       string
	Func       string
	Pos        string
	Goal       string // term that must be valid in the context
	CtxLen     int
	Quantified bool
	Success    bool // cover of a return with a literal nil error
	Retried    bool // undecided in the parallel pass, tried again with few neighbours
	enc        *fnEnc
	// results
	Result   string // unsat (=discharged) | sat | unknown | timeout | error
	Solver   string
	Ms       int64
	Output   string
	Model    map[string]string
	Known    bool // listed in known_findings
	Cover    bool // cover query: expected SAT
	Src      string
	Replayed bool // the model was confirmed against the real code
}

type state struct {
	reach  string
	heap   map[string]string
	epoch  int
	next   string
	dead   bool
	locals map[*ssa.Alloc]string // current values of locally owned cells (see localCell)
}

func (s *state) clone() *state {
	h := make(map[string]string, len(s.heap))
	for k, v := range s.heap {
		h[k] = v
	}
	l := make(map[*ssa.Alloc]string, len(s.locals))
	for k, v := range s.locals {
		l[k] = v
	}
	return &state{reach: s.reach, heap: h, epoch: s.epoch, next: s.next, dead: s.dead, locals: l}
}

type loopInfo struct {
	head    *ssa.BasicBlock
	blocks  map[*ssa.BasicBlock]bool
	backs   []*ssa.BasicBlock // sources of back edges
	ordinal int
	spec    *LoopSpec
	phiPre  map[*ssa.Phi]string // havoc'd names
	variant string
	headSt  *state
	auto    []autoInv
}

// autoInv is an automatically proposed loop invariant (checked like any other; a
// candidate whose check fails is dropped and the function re-encoded, Houdini style).
type autoInv struct {
	label string
	term  func() string
}

// proposeAutoInvariants: for a header phi i = phi(c, i+k) (k>0 constant, signed type)
// propose (a) i >= c when c is a constant, and (b) an upper bound taken from the loop
// guard in the header block: guard `i < n` gives i <= n, guard `i+k < n` gives i < n,
// where n is loop invariant (defined outside the loop, or len of such a value).
func (e *fnEnc) proposeAutoInvariants(li *loopInfo) {
	b := li.head
	for _, ins := range b.Instrs {
		phi, ok := ins.(*ssa.Phi)
		if !ok {
			break
		}
		if !isInteger(phi.Type()) || !isSigned(phi.Type()) {
			continue
		}
		var c *ssa.Const
		constEntry := true
		good := true
		var step int64
		for i, p := range b.Preds {
			ed := phi.Edges[i]
			if isBackEdge(p, b) {
				if ed == ssa.Value(phi) {
					continue
				}
				bo, ok := ed.(*ssa.BinOp)
				if !ok || bo.Op != token.ADD {
					good = false
					break
				}
				k, ok := bo.Y.(*ssa.Const)
				if !ok || bo.X != ssa.Value(phi) || k.Value == nil || k.Int64() <= 0 || (step != 0 && step != k.Int64()) {
					good = false
					break
				}
				step = k.Int64()
			} else {
				cc, ok := ed.(*ssa.Const)
				if !ok || cc.Value == nil || (c != nil && cc.Int64() != c.Int64()) {
					constEntry = false
					continue
				}
				c = cc
			}
		}
		if !good || step == 0 {
			continue
		}
		phiC := phi
		add := func(label string, term func() string) {
			if e.V.autoOff[funcKey(e.fn)+"#"+fmt.Sprintf("loop%d[%s]", li.ordinal, label)] {
				return
			}
			li.auto = append(li.auto, autoInv{label: label, term: term})
		}
		if constEntry && c != nil {
			cterm := e.constTerm(c)
			add(fmt.Sprintf("auto:%s>=%d", phiName(phi), c.Int64()), func() string { return app("bvsge", e.vals[phiC], cterm) })
		}
		// (b) upper bound from the header guard
		ifi, ok := b.Instrs[len(b.Instrs)-1].(*ssa.If)
		if !ok {
			continue
		}
		cmp, ok := ifi.Cond.(*ssa.BinOp)
		if !ok || (cmp.Op != token.LSS && cmp.Op != token.LEQ) || !li.blocks[b.Succs[0]] {
			continue
		}
		boundTerm := e.loopInvariantTerm(li, cmp.Y)
		if boundTerm == nil {
			continue
		}
		strict := false
		switch x := cmp.X.(type) {
		case *ssa.Phi:
			if x != phi {
				continue
			}
		case *ssa.BinOp:
			k, ok := x.Y.(*ssa.Const)
			if x.Op != token.ADD || x.X != ssa.Value(phi) || !ok || k.Value == nil || k.Int64() != step {
				continue
			}
			strict = true
		default:
			continue
		}
		if cmp.Op == token.LEQ || step != 1 {
			continue
		}
		if strict {
			add(fmt.Sprintf("auto:%s<bound", phiName(phi)), func() string { return app("bvslt", e.vals[phiC], boundTerm()) })
		} else {
			add(fmt.Sprintf("auto:%s<=bound", phiName(phi)), func() string { return app("bvsle", e.vals[phiC], boundTerm()) })
		}
	}
}

// loopInvariantTerm returns a term builder for v if v does not change in the loop.
func (e *fnEnc) loopInvariantTerm(li *loopInfo, v ssa.Value) func() string {
	switch x := v.(type) {
	case *ssa.Const, *ssa.Parameter, *ssa.FreeVar:
		return func() string { return e.val(v) }
	case *ssa.Call:
		if bi, ok := x.Call.Value.(*ssa.Builtin); ok && bi.Name() == "len" {
			if _, isSl := x.Call.Args[0].Type().Underlying().(*types.Slice); isSl {
				inner := e.loopInvariantTerm(li, x.Call.Args[0])
				if inner != nil {
					return func() string { return app("s_len", inner()) }
				}
			}
		}
	}
	if ins, ok := v.(ssa.Instruction); ok && ins.Block() != nil && !li.blocks[ins.Block()] {
		if _, isPhi := v.(*ssa.Phi); isPhi || true {
			return func() string { return e.val(v) }
		}
	}
	return nil
}

type mergeRec struct {
	conds []string // len(heaps)-1 conditions: heaps[i] if conds[i], else the rest
	heaps []string
}

type fnEnc struct {
	mergeInfo map[string]mergeRec // merged memory name -> conditions and the memories merged
	loadDefs map[string]string // names defined as a load of a reference / slice from a memory
	reachAt map[*ssa.BasicBlock]string // reachability of each block at its entry
	privAllocs *[]*ssa.Alloc
	transDone bool // the reflexive/transitive obligations of [transitive:] postconditions were emitted
	V        *Verifier
	fn       *ssa.Function
	fc       *FuncContract
	ctx      []string
	lazy     []string // lazily created declarations (heaps per epoch), emitted before ctx
	lazySet  map[string]bool
	obls     []*Obligation
	covers   []*Obligation
	vals     map[ssa.Value]string
	tuples   map[ssa.Value][]string
	ctr      int
	out      map[*ssa.BasicBlock]*state
	edgeCond map[[2]int]string
	loops    map[*ssa.BasicBlock]*loopInfo
	loopList []*loopInfo
	entry    *state
	anchors  map[string]int
	epochCtr int
	params   map[string]tval
	results  []tval // set at each return
	retNames []string
	errs     []string
	hasQuant bool
	defers   []*ssa.Defer
	closures map[ssa.Value]*ssa.MakeClosure
	depth    int
	inputs   []inputVar
	rangeSrc map[ssa.Value]ssa.Value
	deferSt  map[*ssa.Defer]string
	onReturn func(st *state, res []tval)
	specConsts map[string]string
	freevars map[string]tval // captured variables: name -> address of the variable
	curBlock *ssa.BasicBlock
	winOf    map[ssa.Value]string // pointers produced by slice-to-array conversions -> the slice
	storeInfo  map[string]storeRec
	allocNames map[string]bool
	allocOrder map[string]int
	declOrder  map[string]int
	invTracked []tval // values for which a type invariant was assumed (re-assumed after a havoc)
	invSeen    map[string]bool
	noTypeInv  bool
	constFV    map[*ssa.FreeVar]string
}

type inputVar struct {
	Name string
	Term string
	Type types.Type
}

type tval struct {
	term string
	typ  types.Type
	lit  *bigLit // untyped integer constant
}

func (e *fnEnc) emit(s string) { e.ctx = append(e.ctx, foldTerm(s)) }

var selRe = regexp.MustCompile(`\((s_base|s_off|s_len|s_cap) ([A-Za-z0-9_!]+)\)`)
var litArithRe = regexp.MustCompile(`\((bvadd|bvsub) (#x[0-9a-f]{16}) (#x[0-9a-f]{16})\)`)
var addZeroRe = regexp.MustCompile(`\(bvadd #x0000000000000000 ([A-Za-z0-9_!#]+)\)`)

// foldTerm folds selectors of slices whose components are known and constant index
// arithmetic (purely syntactic, sound rewriting).
func foldTerm(s string) string {
	for i := 0; i < 4; i++ {
		t := selRe.ReplaceAllStringFunc(s, func(m string) string {
			sm := selRe.FindStringSubmatch(m)
			if c, ok := sliceDefs[sm[2]]; ok {
				switch sm[1] {
				case "s_base":
					return c[0]
				case "s_off":
					return c[1]
				case "s_len":
					return c[2]
				default:
					return c[3]
				}
			}
			return m
		})
		t = litArithRe.ReplaceAllStringFunc(t, func(m string) string {
			sm := litArithRe.FindStringSubmatch(m)
			var a, b uint64
			fmt.Sscanf(sm[2][2:], "%x", &a)
			fmt.Sscanf(sm[3][2:], "%x", &b)
			if sm[1] == "bvadd" {
				return bvLit(64, a+b)
			}
			return bvLit(64, a-b)
		})
		t = addZeroRe.ReplaceAllString(t, "$1")
		if t == s {
			break
		}
		s = t
	}
	return s
}

func (e *fnEnc) freshName(prefix string) string {
	e.ctr++
	return fmt.Sprintf("%s_%d", sanitize(prefix), e.ctr)
}

func (e *fnEnc) declare(prefix string, s *Sort) string {
	n := e.freshName(prefix)
	switch s.kind {
	case skSlice:
		// components as separate constants: lets the solvers' equation solving eliminate them
		e.emit(fmt.Sprintf("(declare-const %s_b Ref)\n(declare-const %s_o (_ BitVec 64))\n(declare-const %s_l (_ BitVec 64))\n(declare-const %s_c (_ BitVec 64))\n(define-fun %s () Slice (mkslice %s_b %s_o %s_l %s_c))", n, n, n, n, n, n, n, n, n))
		sliceDefs[n] = [4]string{n + "_b", n + "_o", n + "_l", n + "_c"}
		e.declOrder[n+"_b"] = e.ctr
	case skIface:
		e.emit(fmt.Sprintf("(declare-const %s_t Int)\n(declare-const %s_v Ref)\n(define-fun %s () Iface (mkiface %s_t %s_v))", n, n, n, n, n))
	default:
		e.emit(fmt.Sprintf("(declare-const %s %s)", n, s.name))
		if s.kind == skRef {
			e.declOrder[n] = e.ctr
		}
	}
	return n
}

func (e *fnEnc) define(prefix string, s *Sort, term string) string {
	term = foldTerm(term)
	n := e.freshName(prefix)
	if s.kind == skSlice && strings.HasPrefix(term, "(mkslice ") {
		if c, ok := splitMkslice(term); ok {
			sliceDefs[n] = c
		}
	}
	e.emit(fmt.Sprintf("(define-fun %s () %s %s)", n, s.name, term))
	if (s.kind == skRef || s.kind == skSlice) && strings.HasPrefix(term, "(select H") {
		if e.loadDefs == nil {
			e.loadDefs = map[string]string{}
		}
		e.loadDefs[n] = term
	}
	return n
}

// defineGuard introduces a path condition as a declared Boolean constant with a defining
// equation (not a macro): asserting a reach constant then lets the solvers' value
// propagation turn guarded facts into top-level facts before equation solving.
func (e *fnEnc) defineGuard(prefix string, term string) string {
	if term == "true" || term == "false" {
		return term
	}
	n := e.freshName(prefix)
	e.emit(fmt.Sprintf("(declare-const %s Bool)\n(assert (= %s %s))", n, n, term))
	return n
}

func (e *fnEnc) assume(st *state, fact string) {
	if fact == "true" {
		return
	}
	e.emit("(assert " + implies(st.reach, fact) + ")")
}

func (e *fnEnc) sortOf(t types.Type) *Sort { return e.V.ST.sortOf(t) }

// heap returns the current version of the heap for a cell sort.
func (e *fnEnc) heap(st *state, key string, cell *Sort) string {
	if h, ok := st.heap[key]; ok {
		return h
	}
	name := fmt.Sprintf("H_e%d_%s", st.epoch, key)
	if !e.lazySet[name] {
		e.lazySet[name] = true
		e.lazy = append(e.lazy, fmt.Sprintf("(declare-const %s (Array Ref %s))", name, cell.name))
	}
	st.heap[key] = name
	return name
}

func (e *fnEnc) setHeap(st *state, key string, cell *Sort, term string) {
	n := e.define("H_"+key, &Sort{name: "(Array Ref " + cell.name + ")"}, term)
	st.heap[key] = n
}

// privateAllocs: local variables of the function whose address never leaves it - every use of
// the Alloc is a field/element address that is only loaded from or stored to. No callee can
// write such a variable (Go has no way to reach it), so its cells survive a call that may
// write anything.
func (e *fnEnc) privateAllocs() []*ssa.Alloc {
	if e.privAllocs != nil {
		return *e.privAllocs
	}
	var out []*ssa.Alloc
	var onlyLocal func(v ssa.Value) bool
	onlyLocal = func(v ssa.Value) bool {
		refs := v.Referrers()
		if refs == nil {
			return false
		}
		for _, r := range *refs {
			switch u := r.(type) {
			case *ssa.DebugRef:
			case *ssa.UnOp:
				if u.Op != token.MUL {
					return false
				}
			case *ssa.Store:
				if u.Val == v {
					return false
				}
			case *ssa.FieldAddr:
				if !onlyLocal(u) {
					return false
				}
			case *ssa.IndexAddr:
				if u.X != v || !onlyLocal(u) {
					return false
				}
			default:
				return false
			}
		}
		return true
	}
	for _, b := range e.fn.Blocks {
		for _, in := range b.Instrs {
			if a, ok := in.(*ssa.Alloc); ok && !a.Heap && onlyLocal(a) {
				out = append(out, a)
			}
		}
	}
	e.privAllocs = &out
	return out
}

// scalarLeaves lists the scalar cells below an address (nested structs, small arrays).
func (e *fnEnc) scalarLeaves(addr string, t types.Type, out *[]leafCell) {
	switch u := t.Underlying().(type) {
	case *types.Struct:
		for i := 0; i < u.NumFields(); i++ {
			e.scalarLeaves(fldAddr(addr, i), u.Field(i).Type(), out)
		}
		return
	case *types.Array:
		if u.Len() <= 64 {
			for i := int64(0); i < u.Len(); i++ {
				e.scalarLeaves(idxAddr(addr, bvLit(64, uint64(i))), u.Elem(), out)
			}
		}
		return
	}
	cs := e.sortOf(t)
	if cs.heapKey() != "" {
		*out = append(*out, leafCell{addr, cs})
	}
}

type leafCell struct {
	addr string
	sort *Sort
}

func (e *fnEnc) havocAll(st *state) {
	// cells of private locals, read before the memories are replaced
	type kept struct {
		leafCell
		val string
	}
	var keep []kept
	for _, a := range e.privateAllocs() {
		at, ok := e.vals[a]
		if !ok || strings.Contains(at, "LOCAL-CELL") {
			continue // not executed yet / tracked as a local value, not a memory cell
		}
		var ls []leafCell
		func() {
			defer func() { recover() }()
			e.scalarLeaves(at, a.Type().Underlying().(*types.Pointer).Elem(), &ls)
		}()
		for _, l := range ls {
			keep = append(keep, kept{l, fmt.Sprintf("(select %s %s)", e.heap(st, l.sort.heapKey(), l.sort), l.addr)})
		}
	}
	// scalar fields declared immutable (assigned only in the constructors: checkImmutables) of
	// the objects whose invariant is tracked keep their value
	for _, tv := range e.invTracked {
		pt, ok := tv.typ.(*types.Pointer)
		if !ok {
			continue
		}
		named, ok := pt.Elem().(*types.Named)
		if !ok || named.Obj().Pkg() == nil || e.isConstructorOf(named) {
			continue
		}
		su, ok := named.Underlying().(*types.Struct)
		if !ok {
			continue
		}
		for _, im := range e.V.C.Immutables {
			if im.Pkg != named.Obj().Pkg().Path() || im.Struct != named.Obj().Name() {
				continue
			}
			for i := 0; i < su.NumFields(); i++ {
				listed := false
				for _, f := range im.Fields {
					if f == "*" || f == su.Field(i).Name() {
						listed = true
					}
				}
				if !listed {
					continue
				}
				switch su.Field(i).Type().Underlying().(type) {
				case *types.Struct, *types.Array:
					continue
				}
				var cs *Sort
				func() {
					defer func() { recover() }()
					cs = e.sortOf(su.Field(i).Type())
				}()
				if cs == nil || cs.heapKey() == "" {
					continue
				}
				a := fldAddr(tv.term, i)
				keep = append(keep, kept{leafCell{a, cs}, fmt.Sprintf("(select %s %s)", e.heap(st, cs.heapKey(), cs), a)})
			}
		}
	}
	defer func() {
		for _, k := range keep {
			e.assume(st, eq(fmt.Sprintf("(select %s %s)", e.heap(st, k.sort.heapKey(), k.sort), k.addr), k.val))
		}
	}()
	e.epochCtr++
	// the ghost log of sent pointers is written only by the function itself
	var sentlog string
	if _, used := mapCellSorts["sentlog"]; used {
		sentlog = e.heap(st, "sentlog", mapCellSorts["sentlog"])
	}
	var gflag string
	if _, used := mapCellSorts["gflag"]; used {
		// monotone ghost flags: a callee may set more of them, never reset one
		old := e.heap(st, "gflag", sortBool)
		gflag = e.declare("Hgflag", &Sort{name: "(Array Ref Bool)"})
		e.hasQuant = true
		e.emit(fmt.Sprintf("(assert (forall ((a Ref)) (! (=> (select %s a) (select %s a)) :pattern ((select %s a)))))", old, gflag, gflag))
	}
	st.epoch = e.epochCtr
	st.heap = map[string]string{}
	if sentlog != "" {
		st.heap["sentlog"] = sentlog
	}
	if gflag != "" {
		st.heap["gflag"] = gflag
	}
	nn := e.declare("next", &Sort{name: "Int"})
	e.assume(st, fmt.Sprintf("(>= %s %s)", nn, st.next))
	st.next = nn
	e.assumeGlobalFacts(st)
	for _, tv := range e.invTracked {
		e.assumeTypeInv(st, tv.term, tv.typ, false)
	}
}

// ---------------------------------------------------------------------------
// obligations
// ---------------------------------------------------------------------------

func (e *fnEnc) srcText(pos token.Pos) (string, string) {
	if !pos.IsValid() {
		return "", ""
	}
	fset := e.V.P.Prog.Fset
	p := fset.Position(pos)
	where := fmt.Sprintf("%s:%d", p.Filename, p.Line)
	pkg := e.fn.Pkg
	if pkg == nil && e.fn.Parent() != nil {
		pkg = e.fn.Parent().Pkg
	}
	var files []*ast.File
	if pkg != nil {
		if pp := e.V.P.byPath[pkg.Pkg.Path()]; pp != nil {
			files = pp.Syntax
		}
	}
	for _, f := range files {
		if f.Pos() <= pos && pos < f.End() {
			path, _ := astutil.PathEnclosingInterval(f, pos, pos)
			for _, n := range path {
				if ex, ok := n.(ast.Expr); ok {
					if _, isId := ex.(*ast.Ident); isId {
						continue
					}
					s := types.ExprString(ex)
					if len(s) > 60 {
						s = s[:60]
					}
					return s, where
				}
				if _, ok := n.(ast.Stmt); ok {
					break
				}
			}
		}
	}
	return "", where
}

func (e *fnEnc) oblige(st *state, kind, anchor string, pos token.Pos, cond string) *Obligation {
	txt, where := e.srcText(pos)
	if anchor == "" {
		anchor = txt
	}
	base := kind + ":" + strings.ReplaceAll(anchor, " ", "")
	e.anchors[base]++
	name := fmt.Sprintf("%s#%s@%d", funcKey(e.fn), base, e.anchors[base])
	if e.depth > 0 {
		name = fmt.Sprintf("%s#%s@%d", funcKey(e.topFn()), "inl."+sanitize(e.fn.Name())+"."+base, e.anchors[base])
	}
	o := &Obligation{Name: name, Kind: kind, Func: funcKey(e.fn), Pos: where, Goal: foldTerm(implies(st.reach, cond)), CtxLen: len(e.ctx), enc: e, Src: txt}
	if cond == "true" || st.reach == "false" {
		// trivially discharged; still counted
		o.Result, o.Solver = "unsat", "trivial"
	}
	e.obls = append(e.obls, o)
	switch kind {
	case "nil", "bounds", "slice", "div0", "shift", "assert-type", "conv-len", "make-len", "nilmap", "call-pre", "callback-guarantee":
		// execution continues past a run-time check only if it passed (and past a call only
		// if its precondition held: a violation is reported once, here)
		if cond != "true" && cond != "false" {
			e.assume(st, foldTerm(cond))
		}
	}
	return o
}

func (e *fnEnc) topFn() *ssa.Function { return e.fn }

func (e *fnEnc) structureError(what string) {
	e.errs = append(e.errs, what)
}

// ---------------------------------------------------------------------------
// CFG: loops
// ---------------------------------------------------------------------------

func (e *fnEnc) findLoops() {
	e.loops = map[*ssa.BasicBlock]*loopInfo{}
	for _, b := range e.fn.Blocks {
		for _, s := range b.Succs {
			if s.Dominates(b) {
				li := e.loops[s]
				if li == nil {
					li = &loopInfo{head: s, blocks: map[*ssa.BasicBlock]bool{s: true}, phiPre: map[*ssa.Phi]string{}}
					e.loops[s] = li
				}
				li.backs = append(li.backs, b)
				// natural loop: all blocks that reach b without passing through s
				stack := []*ssa.BasicBlock{b}
				for len(stack) > 0 {
					x := stack[len(stack)-1]
					stack = stack[:len(stack)-1]
					if li.blocks[x] {
						continue
					}
					li.blocks[x] = true
					stack = append(stack, x.Preds...)
				}
			}
		}
	}
	for _, li := range e.loops {
		e.loopList = append(e.loopList, li)
	}
	sort.Slice(e.loopList, func(i, j int) bool { return e.loopList[i].head.Index < e.loopList[j].head.Index })
	for i, li := range e.loopList {
		li.ordinal = i + 1
		if e.fc != nil {
			li.spec = e.fc.Loops[li.ordinal]
		}
	}
	if e.fc != nil {
		for n := range e.fc.Loops {
			if n < 1 || n > len(e.loopList) {
				e.structureError(fmt.Sprintf("contract names loop %d but the function has %d loops", n, len(e.loopList)))
			}
		}
	}
}

func isBackEdge(from, to *ssa.BasicBlock) bool { return to.Dominates(from) }

// topological order of blocks ignoring back edges (reverse post-order)
func (e *fnEnc) topo() []*ssa.BasicBlock {
	seen := map[*ssa.BasicBlock]bool{}
	var post []*ssa.BasicBlock
	var dfs func(b *ssa.BasicBlock)
	dfs = func(b *ssa.BasicBlock) {
		seen[b] = true
		for _, s := range b.Succs {
			if !seen[s] && !isBackEdge(b, s) {
				dfs(s)
			}
		}
		post = append(post, b)
	}
	dfs(e.fn.Blocks[0])
	// fn.Recover block (if any) is unreachable in our model
	var out []*ssa.BasicBlock
	for i := len(post) - 1; i >= 0; i-- {
		out = append(out, post[i])
	}
	return out
}

// ---------------------------------------------------------------------------
// encoding one function
// ---------------------------------------------------------------------------

func (V *Verifier) encodeFunction(fn *ssa.Function, fc *FuncContract) (enc *fnEnc) {
	e := &fnEnc{V: V, fn: fn, fc: fc, lazySet: map[string]bool{}, vals: map[ssa.Value]string{}, tuples: map[ssa.Value][]string{},
		out: map[*ssa.BasicBlock]*state{}, edgeCond: map[[2]int]string{}, anchors: map[string]int{}, params: map[string]tval{},
		closures: map[ssa.Value]*ssa.MakeClosure{}, rangeSrc: map[ssa.Value]ssa.Value{}, deferSt: map[*ssa.Defer]string{}, specConsts: map[string]string{}, winOf: map[ssa.Value]string{}, storeInfo: map[string]storeRec{}, allocNames: map[string]bool{}, allocOrder: map[string]int{}, declOrder: map[string]int{}, invSeen: map[string]bool{}, constFV: map[*ssa.FreeVar]string{}}
	enc = e
	sliceDefs = map[string][4]string{}
	defer func() {
		if r := recover(); r != nil {
			if ue, ok := r.(unsupported); ok {
				e.structureError("unsupported: " + string(ue))
				return
			}
			panic(r)
		}
	}()
	if fn.Blocks == nil {
		e.structureError("function has no body (external/assembly)")
		return
	}
	e.findLoops()
	st := &state{reach: "true", heap: map[string]string{}, epoch: 0, locals: map[*ssa.Alloc]string{}}
	st.next = e.declare("next0", &Sort{name: "Int"})
	e.emit(fmt.Sprintf("(assert (>= %s 0))", st.next))
	e.entry = st.clone()
	// parameters and free variables
	for _, p := range fn.Params {
		t := e.declareInput(st, "p_"+p.Name(), p.Type())
		e.vals[p] = t
		e.params[p.Name()] = tval{term: t, typ: p.Type()}
		e.inputs = append(e.inputs, inputVar{p.Name(), t, p.Type()})
	}
	e.freevars = map[string]tval{}
	for _, fv := range fn.FreeVars {
		t := e.declareInput(st, "fv_"+fv.Name(), fv.Type())
		e.vals[fv] = t
		e.freevars[fv.Name()] = tval{term: t, typ: fv.Type()}
		// a captured variable lives in an allocated cell
		if _, isPtr := fv.Type().Underlying().(*types.Pointer); isPtr {
			e.assume(st, not(eq(t, "null")))
		}
	}
	e.assumeGlobalFacts(st)
	// default contract of a swept method: the receiver is not nil (checked at call sites
	// like any precondition)
	if fc == nil {
		for _, p := range fn.Params {
			if defaultNonNil(p.Type()) {
				e.assume(st, not(eq(e.vals[p], "null")))
			}
		}
	}
	// requires
	if fc != nil {
		env := e.contractEnv(st, st, nil)
		for _, r := range fc.Requires {
			t := env.evalBool(r.Expr)
			e.assume(st, t)
		}
	}
	order := e.topo()
	inStates := map[*ssa.BasicBlock]*state{fn.Blocks[0]: st}
	for _, b := range order {
		var cur *state
		if b == fn.Blocks[0] {
			cur = st
		} else {
			cur = e.mergePreds(b)
		}
		if li := e.loops[b]; li != nil {
			cur = e.enterLoop(li, cur)
		} else {
			e.definePhis(b, nil)
		}
		inStates[b] = cur
		if e.reachAt == nil {
			e.reachAt = map[*ssa.BasicBlock]string{}
		}
		e.reachAt[b] = cur.reach
		e.execBlock(b, cur)
		e.out[b] = cur
	}
	if fc != nil {
		for _, ac := range fc.AfterCall {
			if !ac.Used {
				e.structureError(fmt.Sprintf("after-call %s: the function calls nothing of that name (on a reachable path)", ac.Callee))
			}
		}
	}
	return
}

type unsupported string

func (e *fnEnc) unsupported(format string, args ...interface{}) {
	panic(unsupported(fmt.Sprintf(format, args...)))
}

// declareInput declares an unknown value of a Go type and assumes it is well formed
// and allocated before `st.next`.
func (e *fnEnc) declareInput(st *state, name string, t types.Type) string {
	s := e.sortOf(t)
	n := e.declare(name, s)
	e.assumeWF(st, n, t)
	return n
}

// assumeWF states Go's memory-safety invariants for a value that comes from
// outside (parameter, heap load, call result): slices well formed, references allocated.
// notPrivate: a reference that was loaded, returned by a call or passed in is not (inside) a
// local variable whose address never leaves the function (privateAllocs).
func (e *fnEnc) notPrivate(st *state, ref string) {
	for _, a := range e.privateAllocs() {
		if at, ok := e.vals[a]; ok && at != ref && !strings.Contains(at, "LOCAL-CELL") {
			e.assume(st, not(eq(app("root", ref), at)))
		}
	}
}

func (e *fnEnc) assumeWF(st *state, term string, t types.Type) {
	switch u := t.Underlying().(type) {
	case *types.Slice:
		e.assume(st, and(app("slice_wf", term), fmt.Sprintf("(< (rootn (s_base %s)) %s)", term, st.next)))
		e.notPrivate(st, app("s_base", term))
	case *types.Pointer, *types.Map, *types.Chan, *types.Signature:
		e.assume(st, and(app("ref_wf", term), fmt.Sprintf("(< (rootn %s) %s)", term, st.next)))
		e.notPrivate(st, term)
		e.assumeTypeInv(st, term, t, true)
	case *types.Interface:
		e.notPrivate(st, app("i_val", term))
		e.assume(st, and(app("ref_wf", app("i_val", term)), fmt.Sprintf("(< (rootn (i_val %s)) %s)", term, st.next), fmt.Sprintf("(>= (i_tag %s) 0)", term),
			fmt.Sprintf("(=> (= (i_tag %s) 0) (= (i_val %s) null))", term, term)))
	case *types.Basic:
		if u.Info()&types.IsString != 0 {
			e.assume(st, fmt.Sprintf("(bvule (strlen %s) #x0000010000000000)", term))
		}
	case *types.Struct:
		s := e.sortOf(t)
		for i := 0; i < u.NumFields(); i++ {
			ft := u.Field(i).Type()
			switch ft.Underlying().(type) {
			case *types.Slice, *types.Pointer, *types.Map, *types.Chan, *types.Signature, *types.Interface, *types.Struct:
				e.assumeWF(st, fmt.Sprintf("(%s_f%d %s)", s.name, i, term), ft)
			}
		}
	}
}

func (e *fnEnc) edge(from, to *ssa.BasicBlock) string {
	st := e.out[from]
	if st == nil {
		return "false"
	}
	c := "true"
	if ifi, ok := from.Instrs[len(from.Instrs)-1].(*ssa.If); ok {
		ct := e.val(ifi.Cond)
		if from.Succs[0] == to && from.Succs[1] == to {
			c = "true"
		} else if from.Succs[0] == to {
			c = ct
		} else {
			c = not(ct)
		}
	}
	return and(st.reach, c)
}

// mergePreds merges the out-states of all forward predecessors of b.
func (e *fnEnc) mergePreds(b *ssa.BasicBlock) *state {
	var preds []*ssa.BasicBlock
	for _, p := range b.Preds {
		if !isBackEdge(p, b) && e.out[p] != nil {
			preds = append(preds, p)
		}
	}
	if len(preds) == 0 {
		return &state{reach: "false", heap: map[string]string{}, next: "0", dead: true, locals: map[*ssa.Alloc]string{}}
	}
	if len(preds) == 1 {
		st := e.out[preds[0]].clone()
		st.reach = e.defineGuard("reach_b"+fmt.Sprint(b.Index), e.edge(preds[0], b))
		return st
	}
	conds := make([]string, len(preds))
	for i, p := range preds {
		conds[i] = e.defineGuard(fmt.Sprintf("edge_%d_%d", p.Index, b.Index), e.edge(p, b))
	}
	st := &state{heap: map[string]string{}, locals: map[*ssa.Alloc]string{}}
	st.reach = e.defineGuard("reach_b"+fmt.Sprint(b.Index), or(conds...))
	// epoch: same if all equal, else new
	same := true
	for _, p := range preds[1:] {
		if e.out[p].epoch != e.out[preds[0]].epoch {
			same = false
		}
	}
	keys := map[string]bool{}
	for _, p := range preds {
		for k := range e.out[p].heap {
			keys[k] = true
		}
	}
	if same {
		st.epoch = e.out[preds[0]].epoch
	} else {
		e.epochCtr++
		st.epoch = e.epochCtr
		// every key known in any predecessor epoch must be merged explicitly; unknown
		// keys of differing epochs are independent unknowns, so a fresh epoch is sound.
	}
	for _, k := range sortedKeys(keys) {
		cell := e.cellSortOfKey(k)
		first := e.heap(e.out[preds[0]], k, cell)
		all := true
		for _, p := range preds[1:] {
			if e.heap(e.out[p], k, cell) != first {
				all = false
			}
		}
		if all {
			st.heap[k] = first
			continue
		}
		term := e.heap(e.out[preds[len(preds)-1]], k, cell)
		for i := len(preds) - 2; i >= 0; i-- {
			term = ite(conds[i], e.heap(e.out[preds[i]], k, cell), term)
		}
		e.setHeap(st, k, cell, term)
		if len(preds) <= 4 {
			// reads can be pushed through the merge (selectFwd)
			if e.mergeInfo == nil {
				e.mergeInfo = map[string]mergeRec{}
			}
			mr := mergeRec{}
			for i, p := range preds {
				mr.heaps = append(mr.heaps, e.heap(e.out[p], k, cell))
				if i < len(preds)-1 {
					mr.conds = append(mr.conds, conds[i])
				}
			}
			e.mergeInfo[st.heap[k]] = mr
		}
	}
	// next
	nterm := e.out[preds[len(preds)-1]].next
	for i := len(preds) - 2; i >= 0; i-- {
		nterm = ite(conds[i], e.out[preds[i]].next, nterm)
	}
	if strings.HasPrefix(nterm, "(") {
		nterm = e.define("next", &Sort{name: "Int"}, nterm)
	}
	st.next = nterm
	// locally owned cells
	st.locals = map[*ssa.Alloc]string{}
	lk := map[*ssa.Alloc]bool{}
	for _, p := range preds {
		for a := range e.out[p].locals {
			lk[a] = true
		}
	}
	for a := range lk {
		var term string
		first := true
		allSame := true
		for i := len(preds) - 1; i >= 0; i-- {
			v, ok := e.out[preds[i]].locals[a]
			if !ok {
				continue // the cell does not exist on that path yet
			}
			if first {
				term, first = v, false
			} else {
				if v != term {
					allSame = false
				}
				term = ite(conds[i], v, term)
			}
		}
		if !allSame {
			et := a.Type().Underlying().(*types.Pointer).Elem()
			term = e.define("loc_"+a.Comment, e.sortOf(et), term)
		}
		st.locals[a] = term
	}
	return st
}

func (e *fnEnc) cellSortOfKey(k string) *Sort {
	switch {
	case strings.HasPrefix(k, "bv"):
		var w int
		fmt.Sscanf(k, "bv%d", &w)
		return bvSort(w)
	case k == "bool":
		return sortBool
	case k == "ref":
		return sortRef
	case k == "slice":
		return sortSlice
	case k == "str":
		return sortStr
	case k == "iface":
		return sortIface
	}
	if s, ok := mapCellSorts[k]; ok {
		return s
	}
	panic("cellSortOfKey " + k)
}

var mapCellSorts = map[string]*Sort{}

// definePhis defines the phis of a non-loop-head block.
func (e *fnEnc) definePhis(b *ssa.BasicBlock, only map[*ssa.BasicBlock]bool) {
	for _, ins := range b.Instrs {
		phi, ok := ins.(*ssa.Phi)
		if !ok {
			break
		}
		s := e.sortOf(phi.Type())
		var term string
		first := true
		for i := len(b.Preds) - 1; i >= 0; i-- {
			p := b.Preds[i]
			if e.out[p] == nil || isBackEdge(p, b) {
				continue
			}
			v := e.val(phi.Edges[i])
			if first {
				term = v
				first = false
			} else {
				term = ite(e.edge(p, b), v, term)
			}
		}
		if first {
			term = e.V.ST.zeroValue(s)
		}
		e.vals[phi] = e.define("phi_"+phi.Name(), s, term)
	}
}

// enterLoop cuts the loop at its head: checks invariants on entry, havocs the
// loop targets, assumes the invariants (DESIGN §3.5).
func (e *fnEnc) enterLoop(li *loopInfo, entry *state) *state {
	b := li.head
	// values of the phis on entry edges
	entryVals := map[*ssa.Phi]string{}
	var phis []*ssa.Phi
	for _, ins := range b.Instrs {
		phi, ok := ins.(*ssa.Phi)
		if !ok {
			break
		}
		phis = append(phis, phi)
		var term string
		first := true
		for i := len(b.Preds) - 1; i >= 0; i-- {
			p := b.Preds[i]
			if isBackEdge(p, b) || e.out[p] == nil {
				continue
			}
			v := e.val(phi.Edges[i])
			if first {
				term, first = v, false
			} else {
				term = ite(e.edge(p, b), v, term)
			}
		}
		if first {
			term = e.V.ST.zeroValue(e.sortOf(phi.Type()))
		}
		entryVals[phi] = term
	}
	spec := li.spec
	e.proposeAutoInvariants(li)
	for _, p := range phis {
		e.vals[p] = entryVals[p]
	}
	for _, ai := range li.auto {
		e.oblige(entry, "inv-entry", fmt.Sprintf("loop%d[%s]", li.ordinal, ai.label), b.Instrs[0].Pos(), ai.term())
	}
	// 1. invariants hold on entry
	if spec != nil {
		env := e.contractEnv(entry, e.entry, li)
		for i, inv := range spec.Invariants {
			t := env.evalBool(inv.Expr)
			o := e.oblige(entry, "inv-entry", fmt.Sprintf("loop%d[%s]", li.ordinal, labelOr(inv.Label, i)), b.Instrs[0].Pos(), t)
			o.Quantified = o.Quantified || strings.Contains(t, "forall") || strings.Contains(t, "exists")
		}
	}
	// 2. havoc loop targets
	head := entry.clone()
	writesAll, keys := e.loopWrites(li)
	if !writesAll && e.loopAllocates(li) {
		// objects allocated by earlier iterations exist at the head
		nn := e.declare("next", &Sort{name: "Int"})
		e.assume(head, fmt.Sprintf("(>= %s %s)", nn, head.next))
		head.next = nn
	}
	declPhis := func() {
		for _, p := range phis {
			n := e.declare("lp_"+phiName(p), e.sortOf(p.Type()))
			e.vals[p] = n
			li.phiPre[p] = n
			e.assumeWF(head, n, p.Type())
		}
	}
	if !writesAll {
		declPhis()
	}
	// locally owned cells assigned inside the loop are loop targets too
	for a := range head.locals {
		if e.loopStoresLocal(li, a) {
			et := a.Type().Underlying().(*types.Pointer).Elem()
			n := e.declare("lploc_"+a.Comment, e.sortOf(et))
			head.locals[a] = n
			e.assumeWF(head, n, et)
		}
	}
	if writesAll {
		e.havocAll(head)
		declPhis()
	} else {
		for _, k := range keys {
			cell := e.cellSortOfKey(k)
			old := e.heap(head, k, cell)
			nh := e.declare("Hl_"+k, &Sort{name: "(Array Ref " + cell.name + ")"})
			head.heap[k] = nh
			// implicit frame: cells allocated before function entry and outside `modifies`
			// are unchanged. Justified by the frame obligation on every store.
			if regs, ok := e.appendOnlyWriters(li, k, entryVals); ok {
				// Loop frame for append-only loops: the loop writes cells of sort k only by
				// appending to the slices held in its header variables (and by initialising
				// objects it allocates itself). A cell of an object that existed on loop entry
				// and lies outside the entry backing arrays of those slices is unchanged.
				e.hasQuant = true
				var outs []string
				for _, r := range regs {
					outs = append(outs, fmt.Sprintf("(not (and ((_ is idx) a) (= (idx_b a) (s_base %s)) (bvule (s_off %s) (idx_i a)) (bvult (idx_i a) (bvadd (s_off %s) (s_cap %s)))))", r, r, r, r))
				}
				e.emit(fmt.Sprintf("(assert (forall ((a Ref)) (! (=> (and (< (rootn a) %s) %s) (= (select %s a) (select %s a))) :pattern ((select %s a)))))", entry.next, and(outs...), nh, old, nh))
			}
			if e.fc != nil && e.fc.ModSet && !e.fc.ModAll {
				e.hasQuant = true
				outside := "true"
				if !e.fc.ModNone {
					menv := e.contractEnv(e.entry, e.entry, nil)
					var ins []string
					for _, m := range e.fc.Modifies {
						ins = append(ins, menv.inModifies(m, "a"))
					}
					outside = not(or(ins...))
				}
				e.emit(fmt.Sprintf("(assert (forall ((a Ref)) (! (=> (and (< (rootn a) %s) %s) (= (select %s a) (select %s a))) :pattern ((select %s a)))))", e.entry.next, outside, nh, e.heap(e.entry, k, cell), nh))
			}
			_ = old
		}
	}
	if !writesAll && len(keys) > 0 {
		// object invariants over immutable fields and ground facts about package-level
		// variables survive the loop (as they survive any havoc)
		e.assumeGlobalFacts(head)
		for _, tv := range e.invTracked {
			e.assumeTypeInv(head, tv.term, tv.typ, false)
		}
	}
	// 3. assume invariants
	for _, ai := range li.auto {
		e.assume(head, ai.term())
	}
	if spec != nil {
		env := e.contractEnv(head, e.entry, li)
		for _, inv := range spec.Invariants {
			t := env.evalBool(inv.Expr)
			e.assume(head, t)
		}
		if spec.Decreases != nil {
			v := env.eval(spec.Decreases.Expr)
			v = env.coerceInt(v)
			li.variant = e.define("variant", e.sortOf(v.typ), v.term)
		}
	}
	li.headSt = head.clone()
	return head
}

func phiName(p *ssa.Phi) string {
	if p.Comment != "" {
		return p.Comment
	}
	return p.Name()
}

func labelOr(l string, i int) string {
	if l != "" {
		return l
	}
	return fmt.Sprint(i + 1)
}

// closeLoop is called at a back edge a -> head.
func (e *fnEnc) closeLoop(li *loopInfo, from *ssa.BasicBlock, st *state) {
	b := li.head
	spec := li.spec
	if spec == nil && len(li.auto) == 0 {
		return
	}
	idx := -1
	for i, p := range b.Preds {
		if p == from {
			idx = i
		}
	}
	saved := map[*ssa.Phi]string{}
	for _, ins := range b.Instrs {
		phi, ok := ins.(*ssa.Phi)
		if !ok {
			break
		}
		saved[phi] = e.vals[phi]
	}
	backVals := map[*ssa.Phi]string{}
	for phi := range saved {
		backVals[phi] = e.val(phi.Edges[idx])
	}
	for phi, v := range backVals {
		e.vals[phi] = v
	}
	est := st.clone()
	est.reach = e.edge(from, b)
	for _, ai := range li.auto {
		e.oblige(est, "inv-keep", fmt.Sprintf("loop%d[%s]", li.ordinal, ai.label), token.NoPos, ai.term())
	}
	if spec == nil {
		for phi, v := range saved {
			e.vals[phi] = v
		}
		return
	}
	env := e.contractEnv(est, e.entry, li)
	for i, inv := range spec.Invariants {
		t := env.evalBool(inv.Expr)
		o := e.oblige(est, "inv-keep", fmt.Sprintf("loop%d[%s]", li.ordinal, labelOr(inv.Label, i)), token.NoPos, t)
		o.Quantified = true
	}
	if len(spec.IterEnsures) > 0 {
		ienv := e.contractEnv(est, e.entry, nil) // no loop: names are the iteration's own values
		ienv.iterFrom = from
		ienv.iterLoop = li
		for i, ie := range spec.IterEnsures {
			t := ienv.evalBool(ie.Expr)
			o := e.oblige(est, "iteration-ensures", fmt.Sprintf("loop%d[%s]", li.ordinal, labelOr(ie.Label, i)), token.NoPos, t)
			o.Src = ie.Src
		}
	}
	if spec.Decreases != nil {
		v := env.coerceInt(env.eval(spec.Decreases.Expr))
		w := e.sortOf(v.typ).width
		goal := and(app("bvsge", li.variant, bvLit(w, 0)), app("bvslt", v.term, li.variant))
		e.oblige(est, "decreases", fmt.Sprintf("loop%d", li.ordinal), token.NoPos, goal)
	}
	for phi, v := range saved {
		e.vals[phi] = v
	}
}

// loopWrites reports which heap keys the loop body may write.
func (e *fnEnc) loopWrites(li *loopInfo) (all bool, keys []string) {
	ks := map[string]bool{}
	var addType func(t types.Type)
	addType = func(t types.Type) {
		switch u := t.Underlying().(type) {
		case *types.Struct:
			for i := 0; i < u.NumFields(); i++ {
				addType(u.Field(i).Type())
			}
		case *types.Array:
			addType(u.Elem())
		default:
			s := e.sortOf(t)
			if k := s.heapKey(); k != "" {
				ks[k] = true
			}
		}
	}
	for b := range li.blocks {
		for _, ins := range b.Instrs {
			switch v := ins.(type) {
			case *ssa.Store:
				addType(v.Val.Type())
			case *ssa.Alloc:
				addType(v.Type().Underlying().(*types.Pointer).Elem())
			case *ssa.MapUpdate:
				all = true
			case *ssa.Send, *ssa.Go, *ssa.Defer, *ssa.RunDefers:
				all = true
			case *ssa.MakeInterface:
				if !isPointerShaped(v.X.Type()) {
					addType(v.X.Type())
				}
			case *ssa.MakeSlice, *ssa.MakeMap, *ssa.MakeChan:
			case ssa.CallInstruction:
				c := v.Common()
				if bi, ok := c.Value.(*ssa.Builtin); ok {
					switch bi.Name() {
					case "append", "copy":
						if sl, ok := c.Args[0].Type().Underlying().(*types.Slice); ok {
							addType(sl.Elem())
						}
					case "delete":
						all = true
					}
					continue
				}
				eff := e.callEffect(c)
				if eff == effAll {
					all = true
				} else if eff == effSome {
					ts, ok := e.modifiedTypes(c)
					if !ok {
						all = true
					}
					for _, t := range ts {
						addType(t)
					}
				}
			}
		}
	}
	for k := range ks {
		keys = append(keys, k)
	}
	sort.Strings(keys)
	return
}

func (e *fnEnc) loopAllocates(li *loopInfo) bool {
	for b := range li.blocks {
		for _, ins := range b.Instrs {
			switch ins.(type) {
			case *ssa.Alloc, *ssa.MakeSlice, *ssa.MakeMap, *ssa.MakeChan, *ssa.MakeInterface, *ssa.MakeClosure, ssa.CallInstruction:
				return true
			}
		}
	}
	return false
}

func isPointerShaped(t types.Type) bool {
	switch t.Underlying().(type) {
	case *types.Pointer, *types.Map, *types.Chan, *types.Signature:
		return true
	}
	return false
}

// ---------------------------------------------------------------------------
// executing a block
// ---------------------------------------------------------------------------

func (e *fnEnc) execBlock(b *ssa.BasicBlock, st *state) {
	e.curBlock = b
	for _, ins := range b.Instrs {
		if _, ok := ins.(*ssa.Phi); ok {
			continue
		}
		e.execInstr(b, ins, st)
	}
	// back edges leaving this block
	for _, s := range b.Succs {
		if isBackEdge(b, s) {
			if li := e.loops[s]; li != nil {
				e.out[b] = st
				e.closeLoop(li, b, st)
			}
		}
	}
}

// val returns the SMT term of an SSA value.
func (e *fnEnc) val(v ssa.Value) string {
	if t, ok := e.vals[v]; ok {
		if t == "LOCAL-CELL" {
			// only reached for closure bindings: the literal's contract reads the value through
			// cellValue; the address itself is a fresh placeholder object
			return "(obj (- 999999))"
		}
		if t == "WINDOW-POINTER-ESCAPED" {
			e.unsupported("a pointer obtained by a slice-to-array conversion is stored or passed on (%s)", v.Name())
		}
		return t
	}
	switch x := v.(type) {
	case *ssa.Const:
		return e.constTerm(x)
	case *ssa.Global:
		return e.V.globalRef(x)
	case *ssa.Function:
		return e.V.funcRef(x)
	case *ssa.Builtin:
		return "null"
	}
	e.unsupported("value %s (%T) used before definition in %s", v.Name(), v, e.fn.Name())
	return ""
}

func (V *Verifier) globalRef(g *ssa.Global) string {
	if n, ok := V.globals[g]; ok {
		return n
	}
	n := fmt.Sprintf("(obj (- %d))", len(V.globals)+1)
	V.globals[g] = n
	return n
}

var funcRefs = map[string]int{}

func (V *Verifier) funcRef(f *ssa.Function) string {
	k := f.String()
	if _, ok := funcRefs[k]; !ok {
		funcRefs[k] = len(funcRefs) + 1
	}
	return fmt.Sprintf("(obj (- %d))", 1000000+funcRefs[k])
}

func (V *Verifier) strConstName(s string) string {
	if n, ok := V.strConst[s]; ok {
		return n
	}
	n := fmt.Sprintf("strc_%d", len(V.strConst))
	V.strConst[s] = n
	return n
}

// modifiedTypes returns the Go types of the cells a callee's modifies clause names.
func (e *fnEnc) modifiedTypes(c *ssa.CallCommon) (ts []types.Type, ok bool) {
	fc := e.contractFor(c)
	if fc == nil {
		return nil, false
	}
	defer func() {
		if r := recover(); r != nil {
			ts, ok = nil, false
		}
	}()
	var args []tval
	if c.IsInvoke() {
		args = append(args, tval{term: "nil_iface", typ: c.Value.Type()})
	}
	for _, a := range c.Args {
		args = append(args, tval{term: e.V.ST.zeroValue(e.sortOf(a.Type())), typ: a.Type()})
	}
	scratch := &state{reach: "true", heap: map[string]string{}, epoch: 0, next: "0"}
	en := e.calleeEnv(scratch, scratch, c, e.staticCallee(c), args)
	for _, m := range fc.Modifies {
		for _, ma := range en.modAddrs(m) {
			if ma.ghostFlag != "" {
				continue
			}
			if ma.mapObj != "" {
				return nil, false
			}
			ts = append(ts, ma.typ)
		}
	}
	return ts, true
}

// assumeTypeInv assumes the declared invariant of a pointer type for a value that reaches
// the function from outside (DESIGN: object invariants over fields that are immutable after
// construction; the immutability is checked syntactically, the establishment by the
// constructor is an assumption listed in the evidence).
func (e *fnEnc) assumeTypeInv(st *state, term string, t types.Type, track bool) {
	if len(e.V.C.TypeInvs) == 0 || e.noTypeInv {
		return
	}
	pt, ok := t.(*types.Pointer)
	if !ok {
		return
	}
	named, ok := pt.Elem().(*types.Named)
	if !ok || named.Obj().Pkg() == nil {
		return
	}
	for _, ti := range e.V.C.TypeInvs {
		if ti.Pkg != named.Obj().Pkg().Path() || strings.TrimPrefix(ti.Type, "*") != named.Obj().Name() {
			continue
		}
		if e.isConstructorOf(named) {
			continue
		}
		func() {
			defer func() {
				if r := recover(); r != nil {
					e.structureError(fmt.Sprintf("typeinv [%s]: %v", ti.Clause.Label, r))
				}
			}()
			en := &env{e: e, st: st, old: st, names: map[string]tval{"self": {term: term, typ: t}}, pkg: named.Obj().Pkg()}
			fact := en.evalBool(ti.Clause.Expr)
			e.assume(st, implies(not(eq(term, "null")), fact))
			e.V.TypeInvUsed[ti.Type+" ["+ti.Clause.Label+"] "+ti.Clause.Src] = true
		}()
		if track && !e.invSeen[term] {
			e.invSeen[term] = true
			e.invTracked = append(e.invTracked, tval{term: term, typ: t})
		}
	}
}

// isConstructorOf: the function being verified is a declared constructor of the type (it
// establishes the invariant instead of assuming it).
func (e *fnEnc) isConstructorOf(named *types.Named) bool {
	for _, im := range e.V.C.Immutables {
		if im.Pkg == named.Obj().Pkg().Path() && im.Struct == named.Obj().Name() {
			for _, c := range im.Constructors {
				if c == funcKey(e.fn) || (e.fn.Parent() != nil && c == funcKey(e.fn.Parent())) {
					return true
				}
			}
		}
	}
	return false
}

// checkImmutables verifies over the whole loaded program that the fields declared
// immutable are assigned only inside the declared constructors.
func (V *Verifier) checkImmutables() []string {
	var errs []string
	for _, im := range V.C.Immutables {
		fields := map[string]bool{}
		all := false
		for _, f := range im.Fields {
			if f == "*" {
				all = true
			}
			fields[f] = true
		}
		ctors := map[string]bool{}
		for _, c := range im.Constructors {
			ctors[c] = true
		}
		for key, fn := range V.P.funcs {
			if fn.Pkg == nil && fn.Parent() == nil {
				continue
			}
			top := fn
			for top.Parent() != nil {
				top = top.Parent()
			}
			if ctors[funcKey(top)] || ctors[key] {
				continue
			}
			for _, b := range fn.Blocks {
				for _, ins := range b.Instrs {
					st, ok := ins.(*ssa.Store)
					if !ok {
						continue
					}
					fa, ok := st.Addr.(*ssa.FieldAddr)
					if !ok {
						continue
					}
					pt, ok := fa.X.Type().Underlying().(*types.Pointer)
					if !ok {
						continue
					}
					named, ok := pt.Elem().(*types.Named)
					if !ok || named.Obj().Pkg() == nil || named.Obj().Pkg().Path() != im.Pkg || named.Obj().Name() != im.Struct {
						continue
					}
					fname := named.Underlying().(*types.Struct).Field(fa.Field).Name()
					if all || fields[fname] {
						// a store into a freshly allocated object of that type inside the same
						// function (composite literal) is construction too
						if _, isAlloc := fa.X.(*ssa.Alloc); isAlloc {
							continue
						}
						errs = append(errs, fmt.Sprintf("structure:immutable %s.%s is assigned in %s (not a declared constructor)", im.Struct, fname, key))
					}
				}
			}
		}
	}
	sort.Strings(errs)
	return errs
}

// defaultNonNil: the default contract of a swept function requires its pointer- and
// map-typed parameters (the receiver included) to be non-nil.
func defaultNonNil(t types.Type) bool {
	switch t.Underlying().(type) {
	case *types.Pointer, *types.Map:
		return true
	}
	return false
}

func (e *fnEnc) loopStoresLocal(li *loopInfo, a *ssa.Alloc) bool {
	for b := range li.blocks {
		for _, ins := range b.Instrs {
			if st, ok := ins.(*ssa.Store); ok && st.Addr == ssa.Value(a) {
				return true
			}
		}
	}
	return false
}

// modsAvoidKey: every modifies item of the callee's contract is a ghost item (flag, map view),
// or `*x` / elems(x) / spare(x) of a parameter x whose pointee / element type has no cell of
// kind k, or whose argument is an object allocated inside the loop.
func (e *fnEnc) modsAvoidKey(c *ssa.CallCommon, k string, keyOf func(types.Type) map[string]bool, freshInLoop func(ssa.Value) bool) bool {
	fc := e.contractFor(c)
	if fc == nil {
		return false
	}
	callee := e.staticCallee(c)
	argOf := func(name string) (ssa.Value, types.Type) {
		if callee != nil {
			for i, p := range callee.Params {
				if p.Name() == name && i < len(c.Args) {
					return c.Args[i], p.Type()
				}
			}
			return nil, nil
		}
		if c.IsInvoke() && name == "recv" {
			return c.Value, c.Value.Type()
		}
		return nil, nil
	}
	for _, m := range fc.Modifies {
		switch v := m.(type) {
		case *ECall:
			switch v.Fun {
			case "flag", "gmap", "content":
				continue
			case "elems", "spare":
				if id, ok := v.Args[0].(*EIdent); ok {
					if arg, t := argOf(id.Name); t != nil {
						if sl, ok := t.Underlying().(*types.Slice); ok && (!keyOf(sl.Elem())[k] || freshInLoop(arg)) {
							continue
						}
					}
				}
				return false
			}
			return false
		case *EUnary:
			if v.Op == "*" {
				if id, ok := v.X.(*EIdent); ok {
					if arg, t := argOf(id.Name); t != nil {
						if pt, ok := t.Underlying().(*types.Pointer); ok && (!keyOf(pt.Elem())[k] || freshInLoop(arg)) {
							continue
						}
					}
				}
			}
			return false
		default:
			return false
		}
	}
	return true
}

// appendOnlyWriters: every instruction of the loop that can write a cell of heap key k is an
// append whose destination is (derived from) a header variable of this loop, or a store into
// an object allocated inside the loop. Returns the entry values of those header slices.
func (e *fnEnc) appendOnlyWriters(li *loopInfo, k string, entryVals map[*ssa.Phi]string) ([]string, bool) {
	var regs []string
	seen := map[*ssa.Phi]bool{}
	keyOf := func(t types.Type) map[string]bool {
		ks := map[string]bool{}
		var add func(t types.Type)
		add = func(t types.Type) {
			switch u := t.Underlying().(type) {
			case *types.Struct:
				for i := 0; i < u.NumFields(); i++ {
					add(u.Field(i).Type())
				}
			case *types.Array:
				add(u.Elem())
			default:
				if hk := e.sortOf(t).heapKey(); hk != "" {
					ks[hk] = true
				}
			}
		}
		add(t)
		return ks
	}
	var rootPhi func(v ssa.Value, depth int) *ssa.Phi
	rootPhi = func(v ssa.Value, depth int) *ssa.Phi {
		if depth > 6 {
			return nil
		}
		switch x := v.(type) {
		case *ssa.Phi:
			if x.Block() == li.head {
				return x
			}
			// a merge inside the loop body: all incoming values must lead to the same header phi
			var r *ssa.Phi
			for _, ed := range x.Edges {
				p := rootPhi(ed, depth+1)
				if p == nil || (r != nil && p != r) {
					return nil
				}
				r = p
			}
			return r
		case *ssa.Call:
			if bi, ok := x.Call.Value.(*ssa.Builtin); ok && bi.Name() == "append" {
				return rootPhi(x.Call.Args[0], depth+1)
			}
		case *ssa.Slice:
			return rootPhi(x.X, depth+1)
		}
		return nil
	}
	var allocInLoop func(v ssa.Value, depth int) bool
	allocInLoop = func(v ssa.Value, depth int) bool {
		if depth > 6 {
			return false
		}
		switch x := v.(type) {
		case *ssa.Alloc:
			return li.blocks[x.Block()]
		case *ssa.MakeSlice:
			return li.blocks[x.Block()]
		case *ssa.FieldAddr:
			return allocInLoop(x.X, depth+1)
		case *ssa.IndexAddr:
			return allocInLoop(x.X, depth+1)
		case *ssa.Slice:
			return allocInLoop(x.X, depth+1)
		}
		return false
	}
	for b := range li.blocks {
		for _, ins := range b.Instrs {
			switch v := ins.(type) {
			case *ssa.Store:
				if !keyOf(v.Val.Type())[k] {
					continue
				}
				if a, ok := v.Addr.(*ssa.Alloc); ok && localCell(a) {
					continue
				}
				if !allocInLoop(v.Addr, 0) {
					return nil, false
				}
			case *ssa.Alloc, *ssa.MakeSlice, *ssa.MakeMap, *ssa.MakeChan, *ssa.MakeClosure:
				// initialisation of fresh objects
			case *ssa.MakeInterface:
			case ssa.CallInstruction:
				c := v.Common()
				if bi, ok := c.Value.(*ssa.Builtin); ok {
					switch bi.Name() {
					case "append":
						sl, ok := c.Args[0].Type().Underlying().(*types.Slice)
						if !ok || !keyOf(sl.Elem())[k] {
							continue
						}
						p := rootPhi(c.Args[0], 0)
						if p == nil {
							return nil, false
						}
						if !seen[p] {
							seen[p] = true
							regs = append(regs, entryVals[p])
						}
					case "copy":
						if sl, ok := c.Args[0].Type().Underlying().(*types.Slice); ok && keyOf(sl.Elem())[k] {
							return nil, false
						}
					}
					continue
				}
				switch e.callEffect(c) {
				case effNone:
				case effSome:
					// a callee with an explicit frame: harmless for this kind of cell if, by the
					// types of its modifies items, it cannot write one - or writes only into an
					// object allocated inside the loop
					if !e.modsAvoidKey(c, k, keyOf, func(v ssa.Value) bool { return allocInLoop(v, 0) }) {
						return nil, false
					}
				default:
					return nil, false
				}
			}
		}
	}
	return regs, true
}
