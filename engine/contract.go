package main

import (
	"fmt"
	"math/big"
	"os"
	"path/filepath"
	"regexp"
	"strconv"
	"strings"
	"unicode"
)

// ---------------------------------------------------------------------------
// Contract files: `//@` structured comments (DESIGN §4).
// ---------------------------------------------------------------------------

type Clause struct {
	Kind  string // requires ensures invariant decreases
	Label string
	Expr  Expr
	Src   string
	File  string
	Line  int
	Pkg   string
	Ghost bool // ghost-ensures: assumed naming clause, never an obligation
}

type LoopSpec struct {
	IterEnsures []*Clause // checked at the end of every iteration (each back edge), may name iteration-local variables
	Invariants []*Clause
	Decreases  *Clause
	Unroll     int
	Havoc      []string // extra names to havoc (documentation only)
}

type FuncContract struct {
	Key      string
	Requires []*Clause
	Ensures  []*Clause
	AfterCall []*AfterCallClause // intermediate assertions after calls of a named callee
	AtReturn []*Clause // checked at every return like a postcondition, may name the function's local variables; not visible to callers
	Modifies []Expr // nil + ModAll/ModNone flags
	ModAll   bool
	ModNone  bool
	ModSet   bool // a modifies clause was given
	Loops    map[int]*LoopSpec
	Extern   bool // assumed, body not verified
	Inline   bool // callers descend into the body
	Pure     bool
	NoPanic  bool // extern: assumed not to panic when requires hold (always true for extern)
	Asserts  map[string][]*Clause
	File     string
	Line     int
	Used     bool
	SortedBy  map[string]Expr      // host contract: callback-sorted <param> <n>
	Callbacks map[string][]*Clause // host contract: what it guarantees whenever it calls its function-typed parameter
	PanicOK  []string // obligation-name globs for explicit panics that are accepted as intended behaviour (never for remote-input code)
	Fresh    bool     // results are freshly allocated objects
}

type SpecFunc struct {
	Name    string
	Params  []Param
	Result  string
	Body    Expr // nil => uninterpreted
	Src     string
	Rec     bool
	File    string
	Line    int
	Builtin bool
}

type Param struct{ Name, Type string }

type Lemma struct {
	Pkg  string
	Name string
	Expr Expr
	Src  string
	File string
	Line int
}

type Axiom struct {
	Pkg   string
	Label string
	Expr  Expr
	Src   string
	File  string
}

type TypeInv struct {
	Pkg    string
	Type   string // "*T" or "T" (package-relative)
	Clause *Clause
}

type ImmutableDecl struct {
	Pkg          string
	Struct       string
	Fields       []string // "*" = all
	Constructors []string // function keys (package-relative) allowed to assign them
	File         string
	Line         int
}

type Contracts struct {
	TypeInvs   []*TypeInv
	Immutables []*ImmutableDecl
	Funcs  map[string]*FuncContract
	Specs  map[string]*SpecFunc
	Lemmas []*Lemma
	Axioms []*Axiom
	Order  []string
	Glob   []*globalFact
	Ifaces map[string]*FuncContract // "pkg.Iface.Method" contracts for invoke calls
}

type globalFact struct {
	Clause *Clause
}

func newContracts() *Contracts {
	return &Contracts{Funcs: map[string]*FuncContract{}, Specs: map[string]*SpecFunc{}, Ifaces: map[string]*FuncContract{}}
}

var keywordRe = regexp.MustCompile(`^(func|iface|spec|ufunc|axiom|lemma|requires|ensures|ghost-ensures|at-return|after-call|modifies|loop|inline|extern|pure|global|fresh|panicok|callback-sorted|callback|typeinv|immutable)\b`)

// loadContractFile parses one file; pkgPath is "" for /verif/specs files (full keys).
func (C *Contracts) loadContractFile(path, pkgPath string) error {
	data, err := os.ReadFile(path)
	if err != nil {
		return err
	}
	type item struct {
		text string
		line int
	}
	var items []item
	for i, ln := range strings.Split(string(data), "\n") {
		t := strings.TrimSpace(ln)
		if !strings.HasPrefix(t, "//@") {
			continue
		}
		body := strings.TrimSpace(t[3:])
		if body == "" || strings.HasPrefix(body, "#") {
			continue
		}
		if keywordRe.MatchString(body) || len(items) == 0 {
			items = append(items, item{body, i + 1})
		} else {
			items[len(items)-1].text += " " + body
		}
	}
	var cur *FuncContract
	for _, it := range items {
		kw := keywordRe.FindString(it.text)
		rest := strings.TrimSpace(it.text[len(kw):])
		fail := func(e error) error { return fmt.Errorf("%s:%d: %v (in %q)", path, it.line, e, it.text) }
		switch kw {
		case "func", "iface":
			key := normalizeFuncKey(rest, pkgPath)
			fc := &FuncContract{Key: key, Loops: map[int]*LoopSpec{}, File: path, Line: it.line, Asserts: map[string][]*Clause{}}
			if kw == "iface" {
				if _, dup := C.Ifaces[key]; dup {
					return fail(fmt.Errorf("duplicate iface contract %s", key))
				}
				C.Ifaces[key] = fc
				fc.Extern = true
			} else {
				if _, dup := C.Funcs[key]; dup {
					return fail(fmt.Errorf("duplicate contract for %s", key))
				}
				C.Funcs[key] = fc
				C.Order = append(C.Order, key)
			}
			cur = fc
		case "spec", "ufunc":
			sf, err := parseSpecHeader(rest, kw == "ufunc")
			if err != nil {
				return fail(err)
			}
			sf.File, sf.Line = path, it.line
			if _, dup := C.Specs[sf.Name]; dup {
				return fail(fmt.Errorf("duplicate spec function %s", sf.Name))
			}
			C.Specs[sf.Name] = sf
		case "axiom":
			lab, src := splitLabel(rest)
			e, err := parseExpr(src)
			if err != nil {
				return fail(err)
			}
			C.Axioms = append(C.Axioms, &Axiom{Pkg: pkgPath, Label: lab, Expr: e, Src: src, File: path})
		case "lemma":
			i := strings.Index(rest, ":")
			if i < 0 {
				return fail(fmt.Errorf("lemma needs `name: expr`"))
			}
			e, err := parseExpr(rest[i+1:])
			if err != nil {
				return fail(err)
			}
			C.Lemmas = append(C.Lemmas, &Lemma{Pkg: pkgPath, Name: strings.TrimSpace(rest[:i]), Expr: e, Src: strings.TrimSpace(rest[i+1:]), File: path, Line: it.line})
		case "typeinv":
			// typeinv *T [label] expr over `self`
			f := strings.Fields(rest)
			if len(f) < 2 {
				return fail(fmt.Errorf("typeinv <type> [label] expr"))
			}
			lab, src := splitLabel(strings.TrimSpace(strings.TrimPrefix(rest, f[0])))
			e, err := parseExpr(src)
			if err != nil {
				return fail(err)
			}
			C.TypeInvs = append(C.TypeInvs, &TypeInv{Pkg: pkgPath, Type: f[0], Clause: &Clause{Pkg: pkgPath, Kind: "typeinv", Label: lab, Expr: e, Src: src, File: path, Line: it.line}})
		case "immutable":
			// immutable Struct: f1, f2 | * ; by ctor1, ctor2
			parts := strings.SplitN(rest, ";", 2)
			hd := strings.SplitN(parts[0], ":", 2)
			if len(hd) != 2 || len(parts) != 2 || !strings.HasPrefix(strings.TrimSpace(parts[1]), "by ") {
				return fail(fmt.Errorf("immutable Struct: f1, f2 ; by ctor1, ctor2"))
			}
			d := &ImmutableDecl{Pkg: pkgPath, Struct: strings.TrimSpace(hd[0]), File: path, Line: it.line}
			for _, x := range strings.Split(hd[1], ",") {
				d.Fields = append(d.Fields, strings.TrimSpace(x))
			}
			for _, x := range strings.Split(strings.TrimPrefix(strings.TrimSpace(parts[1]), "by "), ",") {
				d.Constructors = append(d.Constructors, normalizeFuncKey(strings.TrimSpace(x), pkgPath))
			}
			C.Immutables = append(C.Immutables, d)
		case "global":
			lab, src := splitLabel(rest)
			e, err := parseExpr(src)
			if err != nil {
				return fail(err)
			}
			C.Glob = append(C.Glob, &globalFact{Clause: &Clause{Pkg: pkgPath, Kind: "global", Label: lab, Expr: e, Src: src, File: path, Line: it.line}})
		default:
			if cur == nil {
				return fail(fmt.Errorf("clause outside a func block"))
			}
			switch kw {
			case "requires", "ensures", "ghost-ensures", "at-return":
				lab, src := splitLabel(rest)
				e, err := parseExpr(src)
				if err != nil {
					return fail(err)
				}
				cl := &Clause{Kind: kw, Label: lab, Expr: e, Src: src, File: path, Line: it.line}
				switch kw {
				case "requires":
					cur.Requires = append(cur.Requires, cl)
				case "ensures":
					cur.Ensures = append(cur.Ensures, cl)
				case "ghost-ensures":
					// a naming clause: gives a name (an uninterpreted predicate) to what this call
					// returned, e.g. decodesTo(bytes, result). Assumed at call sites, never checked:
					// its only content is the definition of the ghost predicate. Listed as an assumption.
					cl.Ghost = true
					cur.Ensures = append(cur.Ensures, cl)
				default:
					cur.AtReturn = append(cur.AtReturn, cl)
				}
			case "after-call":
				parts := strings.SplitN(strings.TrimSpace(rest), " ", 2)
				if len(parts) != 2 {
					return fail(fmt.Errorf("after-call <callee> [label] expr"))
				}
				lab, src := splitLabel(parts[1])
				e, err := parseExpr(src)
				if err != nil {
					return fail(err)
				}
				cur.AfterCall = append(cur.AfterCall, &AfterCallClause{Callee: parts[0], Label: lab, Expr: e, Src: src})
			case "modifies":
				cur.ModSet = true
				switch rest {
				case "nothing":
					cur.ModNone = true
				case "everything":
					cur.ModAll = true
				default:
					for _, part := range splitTopLevel(rest, ',') {
						e, err := parseExpr(part)
						if err != nil {
							return fail(err)
						}
						cur.Modifies = append(cur.Modifies, e)
					}
				}
			case "loop":
				f := strings.Fields(rest)
				if len(f) < 2 {
					return fail(fmt.Errorf("loop N (invariant|decreases|unroll) ..."))
				}
				n, err := strconv.Atoi(f[0])
				if err != nil {
					return fail(err)
				}
				ls := cur.Loops[n]
				if ls == nil {
					ls = &LoopSpec{}
					cur.Loops[n] = ls
				}
				tail := strings.TrimSpace(strings.TrimPrefix(strings.TrimSpace(strings.TrimPrefix(rest, f[0])), f[1]))
				switch f[1] {
				case "invariant":
					lab, src := splitLabel(tail)
					e, err := parseExpr(src)
					if err != nil {
						return fail(err)
					}
					ls.Invariants = append(ls.Invariants, &Clause{Kind: "invariant", Label: lab, Expr: e, Src: src, File: path, Line: it.line})
				case "iteration-ensures":
					lab, src := splitLabel(tail)
					e, err := parseExpr(src)
					if err != nil {
						return fail(err)
					}
					ls.IterEnsures = append(ls.IterEnsures, &Clause{Kind: "iteration-ensures", Label: lab, Expr: e, Src: src, File: path, Line: it.line})
				case "decreases":
					e, err := parseExpr(tail)
					if err != nil {
						return fail(err)
					}
					ls.Decreases = &Clause{Kind: "decreases", Expr: e, Src: tail, File: path, Line: it.line}
				case "unroll":
					k, err := strconv.Atoi(tail)
					if err != nil {
						return fail(err)
					}
					ls.Unroll = k
				default:
					return fail(fmt.Errorf("unknown loop clause %q", f[1]))
				}
			case "callback-sorted":
				// callback-sorted <param> <n-expr>: after the call, positions 0..n-1 are in an order
				// in which the comparison literal passed for <param> never says "later before
				// earlier": forall a < b < n: !less(b, a), with less(i, j) taken from the
				// literal's own postcondition `result <==> E(i, j)` (sort.Slice's documented effect)
				f := strings.Fields(rest)
				if len(f) < 2 {
					return fail(fmt.Errorf("callback-sorted <param> <n-expr>"))
				}
				e, err := parseExpr(strings.TrimSpace(strings.TrimPrefix(rest, f[0])))
				if err != nil {
					return fail(err)
				}
				if cur.SortedBy == nil {
					cur.SortedBy = map[string]Expr{}
				}
				cur.SortedBy[f[0]] = e
			case "callback":
				f := strings.Fields(rest)
				if len(f) < 2 {
					return fail(fmt.Errorf("callback <param> [label] expr"))
				}
				lab, src := splitLabel(strings.TrimSpace(strings.TrimPrefix(rest, f[0])))
				e, err := parseExpr(src)
				if err != nil {
					return fail(err)
				}
				if cur.Callbacks == nil {
					cur.Callbacks = map[string][]*Clause{}
				}
				cur.Callbacks[f[0]] = append(cur.Callbacks[f[0]], &Clause{Kind: "callback", Label: lab, Expr: e, Src: src, File: path, Line: it.line})
			case "inline":
				cur.Inline = true
			case "extern":
				cur.Extern = true
			case "pure":
				cur.Pure = true
			case "fresh":
				cur.Fresh = true
			case "panicok":
				cur.PanicOK = append(cur.PanicOK, strings.Fields(rest)...)
			}
		}
	}
	return nil
}

type AfterCallClause struct {
	Callee string
	Label  string
	Expr   Expr
	Src    string
	Used   bool
}

// normalizeFuncKey turns "(*T).m", "T.m", "f" (package-relative) into the ssa
// function string; full keys (containing a '/' or a '.' before any paren-less name
// in spec files) are kept.
func normalizeFuncKey(s, pkgPath string) string {
	s = strings.TrimSpace(s)
	if pkgPath == "" {
		return s
	}
	if strings.Contains(s, "/") {
		return s // a full key (a dependency's function named from a package's contract file)
	}
	if strings.HasPrefix(s, "var:") {
		return "var:" + pkgPath + "." + strings.TrimPrefix(s, "var:")
	}
	if strings.HasPrefix(s, "field:") {
		return "field:" + pkgPath + "." + strings.TrimPrefix(s, "field:")
	}
	suffix := ""
	if i := strings.Index(s, "$"); i >= 0 {
		suffix = s[i:]
		s = s[:i]
	}
	if strings.HasPrefix(s, "(") {
		j := strings.Index(s, ")")
		recv := s[1:j]
		meth := s[j+1:]
		if strings.HasPrefix(recv, "*") {
			return "(*" + pkgPath + "." + recv[1:] + ")" + meth + suffix
		}
		return "(" + pkgPath + "." + recv + ")" + meth + suffix
	}
	return pkgPath + "." + s + suffix
}

func splitLabel(s string) (string, string) {
	s = strings.TrimSpace(s)
	if strings.HasPrefix(s, "[") {
		if j := strings.Index(s, "]"); j > 0 {
			return s[1:j], strings.TrimSpace(s[j+1:])
		}
	}
	return "", s
}

func splitTopLevel(s string, sep rune) []string {
	var out []string
	d := 0
	last := 0
	for i, c := range s {
		switch c {
		case '(', '[', '{':
			d++
		case ')', ']', '}':
			d--
		default:
			if c == sep && d == 0 {
				out = append(out, strings.TrimSpace(s[last:i]))
				last = i + 1
			}
		}
	}
	out = append(out, strings.TrimSpace(s[last:]))
	return out
}

func parseSpecHeader(s string, uninterpreted bool) (*SpecFunc, error) {
	// name(a T, b U) R [= expr]
	i := strings.Index(s, "(")
	if i < 0 {
		return nil, fmt.Errorf("spec: missing (")
	}
	name := strings.TrimSpace(s[:i])
	d, j := 0, -1
	for k := i; k < len(s); k++ {
		if s[k] == '(' {
			d++
		} else if s[k] == ')' {
			d--
			if d == 0 {
				j = k
				break
			}
		}
	}
	if j < 0 {
		return nil, fmt.Errorf("spec: missing )")
	}
	sf := &SpecFunc{Name: name, Src: s}
	ps := strings.TrimSpace(s[i+1 : j])
	if ps != "" {
		for _, p := range splitTopLevel(ps, ',') {
			f := strings.Fields(p)
			switch len(f) {
			case 1:
				sf.Params = append(sf.Params, Param{Name: fmt.Sprintf("_a%d", len(sf.Params)), Type: f[0]})
			case 2:
				sf.Params = append(sf.Params, Param{Name: f[0], Type: f[1]})
			default:
				return nil, fmt.Errorf("spec: bad parameter %q", p)
			}
		}
	}
	rest := strings.TrimSpace(s[j+1:])
	if uninterpreted {
		sf.Result = rest
		return sf, nil
	}
	k := strings.Index(rest, "=")
	if k < 0 {
		return nil, fmt.Errorf("spec: missing = body")
	}
	sf.Result = strings.TrimSpace(rest[:k])
	body := strings.TrimSpace(rest[k+1:])
	e, err := parseExpr(body)
	if err != nil {
		return nil, err
	}
	sf.Body = e
	sf.Rec = exprCalls(e, name)
	return sf, nil
}

// loadAllContracts reads verif_contracts.go files of the repository packages and
// every /verif/specs/*.gospec file.
func loadAllContracts(P *Program, specDir string) (*Contracts, error) {
	C := newContracts()
	for path, p := range P.byPath {
		if !strings.HasPrefix(path, modPrefix()) {
			continue
		}
		dir := ""
		if len(p.GoFiles) > 0 {
			dir = filepath.Dir(p.GoFiles[0])
		}
		if dir == "" {
			continue
		}
		f := filepath.Join(dir, "verif_contracts.go")
		if _, err := os.Stat(f); err == nil {
			if err := C.loadContractFile(f, path); err != nil {
				return nil, err
			}
		}
	}
	specs, _ := filepath.Glob(filepath.Join(specDir, "*.gospec"))
	for _, f := range specs {
		if err := C.loadContractFile(f, ""); err != nil {
			return nil, err
		}
	}
	return C, nil
}

// ---------------------------------------------------------------------------
// Expression AST and parser
// ---------------------------------------------------------------------------

type Expr interface{}

type (
	EIdent struct{ Name string }
	EInt   struct{ Val *big.Int }
	EBool  struct{ Val bool }
	ENil   struct{}
	EUnary struct {
		Op string
		X  Expr
	}
	EBinary struct {
		Op   string
		X, Y Expr
	}
	ECond struct{ C, A, B Expr }
	ECall struct {
		Fun  string
		Args []Expr
	}
	EIndex    struct{ X, I Expr }
	ESliceE   struct{ X, Lo, Hi Expr }
	ESelector struct {
		X    Expr
		Name string
	}
	EQuant struct {
		Forall   bool
		Vars     []Param
		Triggers [][]Expr
		Body     Expr
	}
	EOld struct{ X Expr }
	ELet struct {
		Name string
		Val  Expr
		Body Expr
	}
)

type lexTok struct {
	kind string // id int op eof
	text string
}

type parser struct {
	toks []lexTok
	pos  int
	src  string
}

func lex(s string) ([]lexTok, error) {
	var toks []lexTok
	i := 0
	ops := []string{"<==>", "==>", "===", "!==", "&&", "||", "==", "!=", "<=", ">=", "<<", ">>", "&^", "::", "..", "+", "-", "*", "/", "%", "&", "|", "^", "<", ">", "!", "(", ")", "[", "]", "{", "}", ",", ":", ".", "?", "="}
	for i < len(s) {
		c := s[i]
		if c == ' ' || c == '\t' {
			i++
			continue
		}
		if unicode.IsLetter(rune(c)) || c == '_' {
			j := i
			for j < len(s) && (unicode.IsLetter(rune(s[j])) || unicode.IsDigit(rune(s[j])) || s[j] == '_') {
				j++
			}
			toks = append(toks, lexTok{"id", s[i:j]})
			i = j
			continue
		}
		if c >= '0' && c <= '9' {
			j := i
			for j < len(s) && (unicode.IsLetter(rune(s[j])) || unicode.IsDigit(rune(s[j])) || s[j] == '_') {
				j++
			}
			toks = append(toks, lexTok{"int", s[i:j]})
			i = j
			continue
		}
		matched := false
		for _, op := range ops {
			if strings.HasPrefix(s[i:], op) {
				toks = append(toks, lexTok{"op", op})
				i += len(op)
				matched = true
				break
			}
		}
		if !matched {
			return nil, fmt.Errorf("lex: unexpected %q at %d in %q", c, i, s)
		}
	}
	toks = append(toks, lexTok{"eof", ""})
	return toks, nil
}

func parseExpr(s string) (Expr, error) {
	toks, err := lex(s)
	if err != nil {
		return nil, err
	}
	p := &parser{toks: toks, src: s}
	var e Expr
	func() {
		defer func() {
			if r := recover(); r != nil {
				err = fmt.Errorf("parse error: %v in %q", r, s)
			}
		}()
		e = p.expr()
		if p.peek().kind != "eof" {
			panic(fmt.Sprintf("unexpected %q", p.peek().text))
		}
	}()
	return e, err
}

func (p *parser) peek() lexTok { return p.toks[p.pos] }
func (p *parser) next() lexTok { t := p.toks[p.pos]; p.pos++; return t }
func (p *parser) isOp(s string) bool {
	t := p.peek()
	return t.kind == "op" && t.text == s
}
func (p *parser) accept(s string) bool {
	if p.isOp(s) {
		p.pos++
		return true
	}
	return false
}
func (p *parser) expect(s string) {
	if !p.accept(s) {
		panic(fmt.Sprintf("expected %q, got %q", s, p.peek().text))
	}
}

func (p *parser) expr() Expr {
	t := p.peek()
	if t.kind == "id" && (t.text == "forall" || t.text == "exists") {
		p.next()
		q := &EQuant{Forall: t.text == "forall"}
		for {
			name := p.next()
			if name.kind != "id" {
				panic("quantifier: expected variable name")
			}
			typ := p.typeName()
			q.Vars = append(q.Vars, Param{name.text, typ})
			if !p.accept(",") {
				break
			}
		}
		p.expect("::")
		for p.isOp("{") {
			p.next()
			var tr []Expr
			for {
				tr = append(tr, p.cond())
				if !p.accept(",") {
					break
				}
			}
			p.expect("}")
			q.Triggers = append(q.Triggers, tr)
		}
		q.Body = p.expr()
		return q
	}
	if t.kind == "id" && t.text == "let" {
		p.next()
		name := p.next()
		p.expect("=")
		v := p.cond()
		if id := p.next(); id.text != "in" {
			panic("let: expected `in`")
		}
		return &ELet{Name: name.text, Val: v, Body: p.expr()}
	}
	return p.cond()
}

func (p *parser) typeName() string {
	// [N]T, []T, *T, ident, ident.ident
	var b strings.Builder
	for {
		if p.accept("[") {
			b.WriteString("[")
			if p.peek().kind == "int" {
				b.WriteString(p.next().text)
			}
			p.expect("]")
			b.WriteString("]")
			continue
		}
		if p.accept("*") {
			b.WriteString("*")
			continue
		}
		break
	}
	id := p.next()
	if id.kind != "id" {
		panic("expected type name")
	}
	b.WriteString(id.text)
	for p.isOp(".") {
		p.next()
		b.WriteString(".")
		b.WriteString(p.next().text)
	}
	return b.String()
}

func (p *parser) cond() Expr {
	c := p.iff()
	if p.accept("?") {
		a := p.cond()
		p.expect(":")
		b := p.cond()
		return &ECond{c, a, b}
	}
	return c
}

func (p *parser) iff() Expr {
	x := p.impl()
	for p.accept("<==>") {
		y := p.impl()
		x = &EBinary{"<==>", x, y}
	}
	return x
}

func (p *parser) impl() Expr {
	x := p.or()
	if p.accept("==>") {
		// right associative; the consequent may be a quantifier
		var y Expr
		if t := p.peek(); t.kind == "id" && (t.text == "forall" || t.text == "exists" || t.text == "let") {
			y = p.expr()
		} else {
			y = p.impl()
		}
		return &EBinary{"==>", x, y}
	}
	return x
}

func (p *parser) or() Expr {
	x := p.and()
	for p.accept("||") {
		x = &EBinary{"||", x, p.and()}
	}
	return x
}

func (p *parser) and() Expr {
	x := p.cmp()
	for p.accept("&&") {
		var y Expr
		if t := p.peek(); t.kind == "id" && (t.text == "forall" || t.text == "exists") {
			y = p.expr()
		} else {
			y = p.cmp()
		}
		x = &EBinary{"&&", x, y}
	}
	return x
}

func (p *parser) cmp() Expr {
	x := p.add()
	for {
		t := p.peek()
		if t.kind == "op" {
			switch t.text {
			case "==", "!=", "<", "<=", ">", ">=", "===", "!==":
				p.next()
				y := p.add()
				x = &EBinary{t.text, x, y}
				continue
			}
		}
		return x
	}
}

func (p *parser) add() Expr {
	x := p.mul()
	for {
		t := p.peek()
		if t.kind == "op" && (t.text == "+" || t.text == "-" || t.text == "|" || t.text == "^") {
			p.next()
			x = &EBinary{t.text, x, p.mul()}
			continue
		}
		return x
	}
}

func (p *parser) mul() Expr {
	x := p.unary()
	for {
		t := p.peek()
		if t.kind == "op" {
			switch t.text {
			case "*", "/", "%", "<<", ">>", "&", "&^":
				p.next()
				x = &EBinary{t.text, x, p.unary()}
				continue
			}
		}
		return x
	}
}

func (p *parser) unary() Expr {
	t := p.peek()
	if t.kind == "op" {
		switch t.text {
		case "!", "-", "^", "*", "&":
			p.next()
			return &EUnary{t.text, p.unary()}
		}
	}
	return p.postfix()
}

func (p *parser) postfix() Expr {
	x := p.primary()
	for {
		switch {
		case p.isOp("."):
			p.next()
			id := p.next()
			if id.kind != "id" {
				panic("selector: expected identifier")
			}
			x = &ESelector{x, id.text}
		case p.isOp("["):
			p.next()
			var lo, hi Expr
			if p.isOp(":") {
				p.next()
				if !p.isOp("]") {
					hi = p.cond()
				}
				p.expect("]")
				x = &ESliceE{x, nil, hi}
				continue
			}
			lo = p.cond()
			if p.accept(":") {
				if !p.isOp("]") {
					hi = p.cond()
				}
				p.expect("]")
				x = &ESliceE{x, lo, hi}
				continue
			}
			p.expect("]")
			x = &EIndex{x, lo}
		case p.isOp("("):
			// call: callee must be an identifier or selector chain (pkg.Func / type conversions)
			name := exprName(x)
			if name == "" {
				panic("call of non-identifier")
			}
			p.next()
			var args []Expr
			if !p.isOp(")") {
				for {
					args = append(args, p.expr())
					if !p.accept(",") {
						break
					}
				}
			}
			p.expect(")")
			if name == "old" {
				if len(args) != 1 {
					panic("old takes one argument")
				}
				x = &EOld{args[0]}
			} else {
				x = &ECall{name, args}
			}
		default:
			return x
		}
	}
}

func exprName(x Expr) string {
	switch v := x.(type) {
	case *EIdent:
		return v.Name
	case *ESelector:
		if b := exprName(v.X); b != "" {
			return b + "." + v.Name
		}
	}
	return ""
}

func (p *parser) primary() Expr {
	t := p.next()
	switch t.kind {
	case "int":
		txt := strings.ReplaceAll(t.text, "_", "")
		v, ok := new(big.Int).SetString(txt, 0)
		if !ok {
			panic("bad integer literal " + t.text)
		}
		return &EInt{v}
	case "id":
		switch t.text {
		case "true":
			return &EBool{true}
		case "false":
			return &EBool{false}
		case "nil":
			return &ENil{}
		case "forall", "exists", "let":
			p.pos--
			return p.expr()
		}
		return &EIdent{t.text}
	case "op":
		if t.text == "(" {
			e := p.expr()
			p.expect(")")
			return e
		}
		if t.text == "[" {
			// type conversion like []byte(x) is not supported; treat "[" "]" ident as type name in calls
			p.pos--
			tn := p.typeName()
			return &EIdent{tn}
		}
	}
	panic(fmt.Sprintf("unexpected token %q", t.text))
}

func exprCalls(e Expr, name string) bool {
	found := false
	walkExpr(e, func(x Expr) {
		if c, ok := x.(*ECall); ok && c.Fun == name {
			found = true
		}
	})
	return found
}

func walkExpr(e Expr, f func(Expr)) {
	if e == nil {
		return
	}
	f(e)
	switch v := e.(type) {
	case *EUnary:
		walkExpr(v.X, f)
	case *EBinary:
		walkExpr(v.X, f)
		walkExpr(v.Y, f)
	case *ECond:
		walkExpr(v.C, f)
		walkExpr(v.A, f)
		walkExpr(v.B, f)
	case *ECall:
		for _, a := range v.Args {
			walkExpr(a, f)
		}
	case *EIndex:
		walkExpr(v.X, f)
		walkExpr(v.I, f)
	case *ESliceE:
		walkExpr(v.X, f)
		if v.Lo != nil {
			walkExpr(v.Lo, f)
		}
		if v.Hi != nil {
			walkExpr(v.Hi, f)
		}
	case *ESelector:
		walkExpr(v.X, f)
	case *EQuant:
		for _, tr := range v.Triggers {
			for _, t := range tr {
				walkExpr(t, f)
			}
		}
		walkExpr(v.Body, f)
	case *EOld:
		walkExpr(v.X, f)
	case *ELet:
		walkExpr(v.Val, f)
		walkExpr(v.Body, f)
	}
}

func modPrefix() string {
	if p := os.Getenv("GOCV_MODPREFIX"); p != "" {
		return p
	}
	return "github.com/zen-eth/shisui"
}
