package main

import (
	"fmt"
	"strings"
)

// ---------------------------------------------------------------------------
// Pattern-directed quantifier instantiation (text level), a second, stronger version of the
// goal-directed pass in instantiate.go.
//
// Every assertion of the obligation, the negated goal included, is treated alike:
//   * exists in positive position / forall in negative position: skolemised (one witness per
//     ground formula, cached, so repeated rounds reuse the same constants);
//   * forall in positive position (a hypothesis, or the body of a negated exists of the goal):
//     replaced by the conjunction of its instances at the bindings found by matching its
//     :pattern terms against the ground terms of the query (syntactic matching, with names
//     introduced by define-fun expanded on demand and with sums of bit-vector terms matched
//     up to associativity and commutativity, which is what element addresses
//     base + offset + index need);
//   * the instances contribute new ground terms; the process is repeated for a few rounds.
// The result is quantifier free and at least as hard to refute as the original ("unsat"
// carries over; "sat" means nothing).
// ---------------------------------------------------------------------------

type emCtx struct {
	defs     map[string]*sx    // zero-arity define-fun: name -> body
	defSort  map[string]string // its sort
	byHead   map[string][]*sx  // ground terms by head symbol
	seenTerm map[string]bool
	sk       *skolems
	instSeen map[string]bool // quantifier text | binding
	total    int
	budget   int
	perQ     int
	dropped  int
	bound    map[string]bool // currently bound variable names (not ground)
	inGoal   bool            // the formula being processed is the negated goal
	reachMemo map[string]bool
}

func (ec *emCtx) isGround(t *sx) bool {
	if t.list == nil {
		return !ec.bound[t.atom]
	}
	for _, c := range t.list {
		if !ec.isGround(c) {
			return false
		}
	}
	return true
}

// addTerms indexes every ground application in t.
func (ec *emCtx) addTerms(t *sx) {
	if t.list == nil {
		return
	}
	h := t.head()
	if h == "forall" || h == "exists" {
		// terms under the binder that do not mention the bound variables are ground too
		var added []string
		for _, b := range t.list[1].list {
			if !ec.bound[b.list[0].atom] {
				ec.bound[b.list[0].atom] = true
				added = append(added, b.list[0].atom)
			}
		}
		ec.addTerms(t.list[2])
		for _, a := range added {
			delete(ec.bound, a)
		}
		return
	}
	if h == "!" {
		ec.addTerms(t.list[1])
		return
	}
	if h == "let" {
		return
	}
	for _, c := range t.list {
		ec.addTerms(c)
	}
	if h == "" || h == "and" || h == "or" || h == "not" || h == "=>" || h == "=" || h == "ite" || h == "assert" || h == "_" {
		return
	}
	if len(ec.bound) > 0 && !ec.isGround(t) {
		return
	}
	k := t.String()
	if ec.seenTerm[k] {
		return
	}
	ec.seenTerm[k] = true
	ec.byHead[h] = append(ec.byHead[h], t)
}

// expandAtom: the body of a define-fun'd name (addresses, indices, slices), if any.
func (ec *emCtx) expandAtom(a string) *sx {
	if b, ok := ec.defs[a]; ok {
		switch ec.defSort[a] {
		case "Ref", "(_ BitVec 64)", "Slice":
			return b
		}
		if b.list == nil {
			return b // an alias (a merged value that a case split resolved to one side)
		}
	}
	return nil
}

// flattenSum: the summands of a (bvadd ...) / (bvsub a lit) term, names expanded on demand.
func (ec *emCtx) flattenSum(t *sx, depth int, out *[]*sx) {
	if t.list == nil {
		if depth < 6 {
			if b := ec.expandAtom(t.atom); b != nil && (b.head() == "bvadd") {
				ec.flattenSum(b, depth+1, out)
				return
			}
		}
		*out = append(*out, t)
		return
	}
	if t.head() == "bvadd" {
		for _, c := range t.list[1:] {
			ec.flattenSum(c, depth+1, out)
		}
		return
	}
	// selectors of an explicit slice constructor
	if r := ec.simplifySel(t); r != nil {
		ec.flattenSum(r, depth+1, out)
		return
	}
	*out = append(*out, t)
}

// simplifySel: (s_off (mkslice b o l c)) -> o etc., with the slice name expanded.
func (ec *emCtx) simplifySel(t *sx) *sx {
	if len(t.list) != 2 {
		return nil
	}
	idx := map[string]int{"s_base": 1, "s_off": 2, "s_len": 3, "s_cap": 4}[t.head()]
	if idx == 0 {
		return nil
	}
	arg := t.list[1]
	for d := 0; d < 4 && arg.list == nil; d++ {
		b := ec.expandAtom(arg.atom)
		if b == nil {
			break
		}
		arg = b
	}
	if arg.head() == "mkslice" && len(arg.list) == 5 {
		return arg.list[idx]
	}
	return nil
}

// windowVar: p is (mkslice (s_base v) (s_off v) (s_len v) _) for one bound variable v.
func windowVar(p *sx, vars map[string]bool) string {
	sel := []string{"", "s_base", "s_off", "s_len"}
	v := ""
	for i := 1; i <= 3; i++ {
		c := p.list[i]
		if c.head() != sel[i] || len(c.list) != 2 || c.list[1].list != nil || !vars[c.list[1].atom] {
			return ""
		}
		if v != "" && v != c.list[1].atom {
			return ""
		}
		v = c.list[1].atom
	}
	return v
}

func hasVar(p *sx, vars map[string]bool) bool {
	if p.list == nil {
		return vars[p.atom]
	}
	for _, c := range p.list {
		if hasVar(c, vars) {
			return true
		}
	}
	return false
}

func isZeroLit(t *sx) bool { return t.list == nil && t.atom == "#x0000000000000000" }

// match extends the binding so that pattern p equals ground term g (syntactically, modulo
// define-fun expansion and AC of bvadd). Returns false if it cannot.
func (ec *emCtx) match(p, g *sx, vars map[string]bool, m map[string]*sx, depth int) bool {
	if depth > 12 {
		return false
	}
	if ec.inGoal && depth == 1 && !hasVar(p, vars) {
		// a witness for an exists of the goal: any term standing where the bound variable
		// stands in an application of the same symbol is a candidate; whether the other
		// arguments agree is for the solver to decide (they may be equal only semantically)
		return true
	}
	if p.list == nil {
		if vars[p.atom] {
			if prev, ok := m[p.atom]; ok {
				return ec.sameTerm(prev, g, 0)
			}
			m[p.atom] = g
			return true
		}
		return ec.sameTerm(p, g, 0)
	}
	// the window form of a bound slice variable, (mkslice (s_base v) (s_off v) (s_len v) 0) - how
	// slices are passed to uninterpreted functions - matches any explicit slice: v is that slice
	if p.head() == "mkslice" && len(p.list) == 5 {
		if v := windowVar(p, vars); v != "" {
			gg := g
			for d := 0; d < 4 && gg.list == nil; d++ {
				b := ec.expandAtom(gg.atom)
				if b == nil {
					break
				}
				gg = b
			}
			if gg.head() == "mkslice" && len(gg.list) == 5 {
				if prev, ok := m[v]; ok {
					return ec.sameTerm(prev, gg, 0)
				}
				m[v] = gg
				return true
			}
			return false
		}
	}
	if p.head() == "bvadd" {
		var ps, gs []*sx
		ec.flattenSum(p, 0, &ps)
		ec.flattenSum(g, 0, &gs)
		// remove equal summands
		var restP []*sx
		for _, a := range ps {
			found := -1
			if !(a.list == nil && vars[a.atom]) {
				for j, b := range gs {
					if b != nil && ec.sameTerm(a, b, 0) {
						found = j
						break
					}
				}
			}
			if found >= 0 {
				gs[found] = nil
			} else {
				restP = append(restP, a)
			}
		}
		var restG []*sx
		for _, b := range gs {
			if b != nil && !isZeroLit(b) {
				restG = append(restG, b)
			}
		}
		var restP2 []*sx
		for _, a := range restP {
			if !isZeroLit(a) {
				restP2 = append(restP2, a)
			}
		}
		restP = restP2
		if len(restP) == 0 {
			return len(restG) == 0
		}
		if len(restP) == 1 && restP[0].list == nil && vars[restP[0].atom] {
			var sum *sx
			switch len(restG) {
			case 0:
				sum = atom("#x0000000000000000")
			case 1:
				sum = restG[0]
			default:
				sum = &sx{list: append([]*sx{atom("bvadd")}, restG...)}
			}
			if prev, ok := m[restP[0].atom]; ok {
				return ec.sameTerm(prev, sum, 0)
			}
			m[restP[0].atom] = sum
			return true
		}
		if len(restP) == 1 && len(restG) == 1 {
			return ec.match(restP[0], restG[0], vars, m, depth+1)
		}
		// one unbound variable plus ground summands on the pattern side:
		// v := (sum of the ground side) - (the pattern's other summands)
		var pv string
		var pground []*sx
		for _, a := range restP {
			if a.list == nil && vars[a.atom] {
				if _, bound := m[a.atom]; !bound && pv == "" {
					pv = a.atom
					continue
				}
			}
			if hasVar(a, vars) {
				return false
			}
			pground = append(pground, a)
		}
		if pv != "" && len(pground) > 0 && len(pground) <= 2 {
			mk := func(xs []*sx) *sx {
				switch len(xs) {
				case 0:
					return atom("#x0000000000000000")
				case 1:
					return xs[0]
				}
				return &sx{list: append([]*sx{atom("bvadd")}, xs...)}
			}
			m[pv] = lst(atom("bvsub"), mk(restG), mk(pground))
			return true
		}
		return false
	}
	if g.list == nil {
		if b := ec.expandAtom(g.atom); b != nil {
			return ec.match(p, b, vars, m, depth+1)
		}
		return false
	}
	if r := ec.simplifySel(g); r != nil {
		return ec.match(p, r, vars, m, depth+1)
	}
	if r := ec.simplifySel(p); r != nil {
		return ec.match(r, g, vars, m, depth+1)
	}
	if len(p.list) != len(g.list) {
		return false
	}
	if p.head() == "select" && len(p.list) == 3 && p.list[1].list == nil && g.list[1].list == nil &&
		p.list[1].atom != g.list[1].atom && !vars[p.list[1].atom] && ec.inGoal {
		// the same cell read in another memory state of the same kind: the address (and so the
		// index) is still a relevant instance - frame axioms connect the two states
		if kp := heapKindOfName(p.list[1].atom); kp != "" && kp == heapKindOfName(g.list[1].atom) {
			return ec.match(p.list[2], g.list[2], vars, m, depth+1)
		}
	}
	if p.head() == "select" && len(p.list) == 3 && p.list[1].list == nil && g.list[1].list == nil &&
		p.list[1].atom != g.list[1].atom && !vars[p.list[1].atom] && ec.heapReaches(g.list[1].atom, p.list[1].atom, 0) {
		// the ground term reads a memory that is the pattern's memory after some stores (or a
		// merge with it): the address is a relevant instance, the array theory connects the two
		return ec.match(p.list[2], g.list[2], vars, m, depth+1)
	}
	for i := range p.list {
		if !ec.match(p.list[i], g.list[i], vars, m, depth+1) {
			return false
		}
	}
	return true
}

// heapReaches: memory `from` is defined from memory `to` by stores / merges.
func (ec *emCtx) heapReaches(from, to string, depth int) bool {
	if from == to {
		return true
	}
	if depth > 600 {
		return false
	}
	k := from + ">" + to
	if v, ok := ec.reachMemo[k]; ok {
		return v
	}
	ec.reachMemo[k] = false
	b, ok := ec.defs[from]
	r := false
	if ok {
		switch {
		case b.list == nil:
			r = ec.heapReaches(b.atom, to, depth+1)
		case b.head() == "store" && len(b.list) == 4 && b.list[1].list == nil:
			r = ec.heapReaches(b.list[1].atom, to, depth+1)
		case b.head() == "ite" && len(b.list) == 4:
			for _, c := range b.list[2:] {
				if c.list == nil && ec.heapReaches(c.atom, to, depth+1) {
					r = true
				}
			}
		}
	}
	ec.reachMemo[k] = r
	return r
}

// heapKindOfName: "ref" for H_e0_ref, Hl_ref_65, H_ref_105, Happ_ref_7 ...; "" if not a heap name.
func heapKindOfName(n string) string {
	if !strings.HasPrefix(n, "H") {
		return ""
	}
	parts := strings.Split(n, "_")
	if len(parts) < 2 {
		return ""
	}
	parts = parts[1:]
	if len(parts) > 1 && len(parts[0]) >= 2 && parts[0][0] == 'e' && isLiteralAtom(parts[0][1:]) {
		parts = parts[1:]
	}
	if len(parts) > 1 && isLiteralAtom(parts[len(parts)-1]) {
		parts = parts[:len(parts)-1]
	}
	return strings.Join(parts, "_")
}

// sameTerm: syntactic equality modulo define-fun expansion of addresses / indices / slices.
func (ec *emCtx) sameTerm(a, b *sx, depth int) bool {
	if a.list == nil && b.list == nil {
		if a.atom == b.atom {
			return true
		}
	}
	if depth > 8 {
		return false
	}
	if a.list == nil {
		if x := ec.expandAtom(a.atom); x != nil {
			return ec.sameTerm(x, b, depth+1)
		}
	}
	if b.list == nil {
		if x := ec.expandAtom(b.atom); x != nil {
			return ec.sameTerm(a, x, depth+1)
		}
	}
	if a.list == nil || b.list == nil {
		if a.list != nil {
			if r := ec.simplifySel(a); r != nil {
				return ec.sameTerm(r, b, depth+1)
			}
		}
		if b.list != nil {
			if r := ec.simplifySel(b); r != nil {
				return ec.sameTerm(a, r, depth+1)
			}
		}
		return false
	}
	if r := ec.simplifySel(a); r != nil {
		return ec.sameTerm(r, b, depth+1)
	}
	if r := ec.simplifySel(b); r != nil {
		return ec.sameTerm(a, r, depth+1)
	}
	if a.head() == "bvadd" || b.head() == "bvadd" {
		var as, bs []*sx
		ec.flattenSum(a, 0, &as)
		ec.flattenSum(b, 0, &bs)
		var a2, b2 []*sx
		for _, x := range as {
			if !isZeroLit(x) {
				a2 = append(a2, x)
			}
		}
		for _, x := range bs {
			if !isZeroLit(x) {
				b2 = append(b2, x)
			}
		}
		if len(a2) != len(b2) {
			return false
		}
		used := make([]bool, len(b2))
		for _, x := range a2 {
			ok := false
			for j, y := range b2 {
				if !used[j] && (x.head() != "bvadd" && y.head() != "bvadd") && ec.sameTerm(x, y, depth+1) {
					used[j] = true
					ok = true
					break
				}
			}
			if !ok {
				return false
			}
		}
		return true
	}
	if len(a.list) != len(b.list) {
		return false
	}
	for i := range a.list {
		if !ec.sameTerm(a.list[i], b.list[i], depth+1) {
			return false
		}
	}
	return true
}

// patternsOf returns the :pattern alternatives of a quantifier body (each a list of terms).
func patternsOf(body *sx) [][]*sx {
	if body.head() != "!" {
		return nil
	}
	var out [][]*sx
	for i := 2; i+1 < len(body.list); i += 2 {
		if body.list[i].atom == ":pattern" {
			out = append(out, body.list[i+1].list)
		}
	}
	return out
}

func (ec *emCtx) matchAll(pats []*sx, vars map[string]bool, m map[string]*sx, out *[]map[string]*sx, limit int) {
	if len(*out) >= limit {
		return
	}
	if len(pats) == 0 {
		cp := map[string]*sx{}
		for k, v := range m {
			cp[k] = v
		}
		*out = append(*out, cp)
		return
	}
	p := pats[0]
	h := p.head()
	for _, g := range ec.byHead[h] {
		m2 := map[string]*sx{}
		for k, v := range m {
			m2[k] = v
		}
		if ec.match(p, g, vars, m2, 0) {
			ec.matchAll(pats[1:], vars, m2, out, limit)
			if len(*out) >= limit {
				return
			}
		}
	}
}

func (ec *emCtx) elim(f *sx, pol int) *sx {
	if f.list == nil || !f.containsQuant() {
		return f
	}
	h := f.head()
	switch h {
	case "not":
		return lst(atom("not"), ec.elim(f.list[1], -pol))
	case "and", "or":
		out := &sx{list: []*sx{f.list[0]}}
		for _, c := range f.list[1:] {
			out.list = append(out.list, ec.elim(c, pol))
		}
		return out
	case "=>":
		out := &sx{list: []*sx{f.list[0]}}
		for i, c := range f.list[1:] {
			if i == len(f.list)-2 {
				out.list = append(out.list, ec.elim(c, pol))
			} else {
				out.list = append(out.list, ec.elim(c, -pol))
			}
		}
		return out
	case "ite":
		if f.list[1].containsQuant() {
			panic(mixedPolarity{})
		}
		return lst(f.list[0], f.list[1], ec.elim(f.list[2], pol), ec.elim(f.list[3], pol))
	case "!":
		return ec.elim(f.list[1], pol)
	case "forall", "exists":
		body := stripPattern(f.list[2])
		binders := f.list[1].list
		skolemise := (h == "forall" && pol < 0) || (h == "exists" && pol > 0)
		if skolemise {
			key := f.String()
			names, cached := ec.sk.names[key]
			m := map[string]*sx{}
			for bi, b := range binders {
				st := b.list[1].String()
				var name string
				if cached {
					name = names[bi]
				} else {
					ec.sk.ctr++
					name = fmt.Sprintf("sk_%s_%d", sanitize(b.list[0].atom), ec.sk.ctr)
					ec.sk.decls = append(ec.sk.decls, fmt.Sprintf("(declare-const %s %s)", name, st))
					names = append(names, name)
				}
				m[b.list[0].atom] = atom(name)
			}
			ec.sk.names[key] = names
			return ec.elim(body.subst(m), pol)
		}
		// instantiate by matching (the ground terms of the body are part of the query)
		ec.addTerms(f)
		vars := map[string]bool{}
		for _, b := range binders {
			vars[b.list[0].atom] = true
		}
		alts := patternsOf(f.list[2])
		if len(alts) == 0 {
			if p := ec.inferPattern(body, vars); p != nil {
				alts = [][]*sx{{p}}
			}
		}
		op := "and"
		neutral := "true"
		if h == "exists" {
			op, neutral = "or", "false"
		}
		if len(alts) == 0 {
			ec.dropped++
			return atom(neutral)
		}
		qkey := f.String()
		out := &sx{list: []*sx{atom(op)}}
		var binds []map[string]*sx
		for _, pats := range alts {
			ec.matchAll(pats, vars, map[string]*sx{}, &binds, ec.perQ)
		}
		seenHere := map[string]bool{}
		for _, m := range binds {
			complete := true
			var ks []string
			for _, b := range binders {
				v, ok := m[b.list[0].atom]
				if !ok {
					complete = false
					break
				}
				ks = append(ks, v.String())
			}
			if !complete {
				continue
			}
			k := strings.Join(ks, "|")
			if seenHere[k] {
				continue
			}
			seenHere[k] = true
			if !ec.instSeen[qkey+"|"+k] {
				if ec.total >= ec.budget {
					continue
				}
				ec.instSeen[qkey+"|"+k] = true
				ec.total++
			}
			out.list = append(out.list, ec.elim(body.subst(m), pol))
		}
		if len(out.list) == 1 {
			return atom(neutral)
		}
		if len(out.list) == 2 {
			return out.list[1]
		}
		return out
	}
	panic(mixedPolarity{})
}

// inferPattern: for a quantifier without :pattern, the first application (select / spec
// function / strbyte) that mentions every bound variable.
func (ec *emCtx) inferPattern(body *sx, vars map[string]bool) *sx {
	var best *sx
	var walk func(t *sx)
	walk = func(t *sx) {
		if t.list == nil || best != nil {
			return
		}
		h := t.head()
		if h == "forall" || h == "exists" {
			return
		}
		if h == "select" || strings.HasPrefix(h, "sf_") || h == "strbyte" {
			all := true
			for v := range vars {
				if !mentions(t, v) {
					all = false
				}
			}
			if all {
				best = t
				return
			}
		}
		for _, c := range t.list {
			walk(c)
		}
	}
	walk(body)
	return best
}

// ematchObligation returns the quantifier-free strengthening, the number of instances and
// the number of hypotheses dropped; "" if the goal itself cannot be handled.
func ematchObligation(text string, perQ, budget, rounds int) (string, int, int) {
	return ematchObligationMode(text, perQ, budget, rounds, false)
}

// goalDirected: the ground terms that seed the matching are those of the goal and of the
// definitions of the names it mentions (a few levels deep), not those of the whole context:
// far fewer instances, all connected to the goal.
func ematchObligationMode(text string, perQ, budget, rounds int, goalDirected bool) (string, int, int) {
	forms, err := parseSexps(text)
	if err != nil {
		return "", 0, 0
	}
	goalIdx := -1
	for i, f := range forms {
		if f.head() == "assert" && len(f.list) == 2 && f.list[1].head() == "not" {
			goalIdx = i
		}
	}
	if goalIdx < 0 {
		return "", 0, 0
	}
	ec := &emCtx{defs: map[string]*sx{}, defSort: map[string]string{}, byHead: map[string][]*sx{}, seenTerm: map[string]bool{},
		sk: &skolems{names: map[string][]string{}}, instSeen: map[string]bool{}, reachMemo: map[string]bool{}, budget: budget, perQ: perQ, bound: map[string]bool{}}
	for _, f := range forms {
		if f.head() == "define-fun" && len(f.list) == 5 && len(f.list[2].list) == 0 && !f.list[4].containsQuant() {
			ec.defs[f.list[1].atom] = f.list[4]
			ec.defSort[f.list[1].atom] = f.list[3].String()
		}
	}
	// ground terms of the quantifier-free part
	if goalDirected {
		visited := map[string]bool{}
		frontier := []*sx{forms[goalIdx].list[1]}
		for depth := 0; depth < 5 && len(frontier) > 0; depth++ {
			var next []*sx
			for _, t := range frontier {
				t.walkAtoms(func(a string) {
					if body, ok := ec.defs[a]; ok && !visited[a] {
						visited[a] = true
						ec.addTerms(body)
						next = append(next, body)
					}
				})
			}
			frontier = next
		}
	}
	for i, f := range forms {
		if goalDirected {
			break
		}
		switch f.head() {
		case "define-fun":
			if len(f.list) == 5 && len(f.list[2].list) == 0 && !f.list[4].containsQuant() {
				ec.addTerms(f.list[4])
			}
		case "assert":
			if i != goalIdx && !f.list[1].containsQuant() {
				ec.addTerms(f.list[1])
			}
		}
	}
	results := map[int]*sx{}
	process := func() bool {
		ok := true
		// the goal first: its skolem constants seed everything else
		order := []int{goalIdx}
		for i, f := range forms {
			if i != goalIdx && f.head() == "assert" && f.list[1].containsQuant() {
				order = append(order, i)
			}
		}
		for _, i := range order {
			f := forms[i]
			func() {
				defer func() {
					if r := recover(); r != nil {
						if _, is := r.(mixedPolarity); is {
							if i == goalIdx {
								ok = false
							}
							results[i] = nil
							return
						}
						panic(r)
					}
				}()
				ec.inGoal = i == goalIdx
				r := ec.elim(f.list[1], 1)
				ec.inGoal = false
				results[i] = r
				ec.addTerms(r)
			}()
		}
		return ok
	}
	prev := -1
	for round := 0; round < rounds; round++ {
		if !process() {
			return "", 0, 0
		}
		if ec.total == prev {
			break
		}
		prev = ec.total
	}
	var b strings.Builder
	for i, f := range forms {
		h := f.head()
		if h == "check-sat" || h == "get-value" || h == "get-model" || h == "assert" || i == goalIdx {
			continue
		}
		b.WriteString(f.String() + "\n")
	}
	for _, d := range ec.sk.decls {
		b.WriteString(d + "\n")
	}
	for i, f := range forms {
		if f.head() != "assert" {
			continue
		}
		if r, isQ := results[i]; isQ {
			if r == nil {
				ec.dropped++
				continue
			}
			b.WriteString("(assert " + r.String() + ")\n")
			continue
		}
		b.WriteString(f.String() + "\n")
	}
	b.WriteString("(check-sat)\n")
	return b.String(), ec.total, ec.dropped
}

// mergeConds: the conditions of merged slice / memory values (define-fun X () Slice|Array (ite C A B))
// where C is an atom: matching cannot see through such a merge, a case split can.
func mergeConds(forms []*sx, max int) []string {
	var out []string
	seen := map[string]bool{}
	for _, f := range forms {
		if f.head() != "define-fun" || len(f.list) != 5 || len(f.list[2].list) != 0 {
			continue
		}
		srt := f.list[3].String()
		if srt != "Slice" && !strings.HasPrefix(srt, "(Array Ref") {
			continue
		}
		b := f.list[4]
		if b.head() == "ite" && len(b.list) == 4 && b.list[1].list == nil && !seen[b.list[1].atom] {
			seen[b.list[1].atom] = true
			out = append(out, b.list[1].atom)
		}
	}
	if len(out) > max {
		out = out[len(out)-max:] // the latest merges are the ones closest to the goal
	}
	return out
}

// resolveIte replaces (ite C A B) by A or B for the decided atoms C.
func resolveIte(t *sx, val map[string]bool) *sx {
	if t.list == nil {
		return t
	}
	if t.head() == "ite" && len(t.list) == 4 && t.list[1].list == nil {
		if v, ok := val[t.list[1].atom]; ok {
			if v {
				return resolveIte(t.list[2], val)
			}
			return resolveIte(t.list[3], val)
		}
	}
	out := &sx{list: make([]*sx, len(t.list))}
	for i, c := range t.list {
		out.list[i] = resolveIte(c, val)
	}
	return out
}

// ematchCases: the obligation split on the conditions of merged slices / memories; every
// case must be refuted. Without such merges: the single unsplit case.
func ematchCases(text string, perQ, budget, rounds int) ([]string, int) {
	return ematchCasesMode(text, perQ, budget, rounds, false)
}

func ematchCasesMode(text string, perQ, budget, rounds int, goalDirected bool) ([]string, int) {
	return ematchCasesSplit(text, perQ, budget, rounds, goalDirected, true)
}

func ematchCasesSplit(text string, perQ, budget, rounds int, goalDirected, split bool) ([]string, int) {
	forms, err := parseSexps(text)
	if err != nil {
		return nil, 0
	}
	var conds []string
	if split {
		conds = mergeConds(forms, 3)
		if len(conds) == 0 {
			return nil, 0 // nothing to split on: the unsplit attempt was the same query
		}
	}
	if len(conds) == 0 {
		t, n, _ := ematchObligationMode(text, perQ, budget, rounds, goalDirected)
		if t == "" {
			return nil, 0
		}
		return []string{t}, n
	}
	var out []string
	total := 0
	for c := 0; c < 1<<uint(len(conds)); c++ {
		val := map[string]bool{}
		var lits []string
		for i, a := range conds {
			val[a] = c&(1<<uint(i)) != 0
			if val[a] {
				lits = append(lits, "(assert "+a+")")
			} else {
				lits = append(lits, "(assert (not "+a+"))")
			}
		}
		var b strings.Builder
		goalLine := ""
		for _, f := range forms {
			r := resolveIte(f, val)
			if r.head() == "assert" && len(r.list) == 2 && r.list[1].head() == "not" {
				goalLine = r.String() // keep the goal last
				continue
			}
			if r.head() == "check-sat" || r.head() == "get-value" {
				continue
			}
			b.WriteString(r.String() + "\n")
		}
		b.WriteString(strings.Join(lits, "\n") + "\n" + goalLine + "\n(check-sat)\n")
		t, n, _ := ematchObligationMode(b.String(), perQ, budget, rounds, goalDirected)
		if t == "" {
			return nil, 0
		}
		total += n
		out = append(out, t)
	}
	return out, total
}
