package main

import (
	"fmt"
	"sort"
	"go/constant"
	"go/types"
	"math/big"
	"strings"

	"golang.org/x/tools/go/ssa"
)

// env evaluates contract expressions to SMT terms in a given program state.
type env struct {
	e           *fnEnc
	st          *state // current heap
	old         *state // heap for old(...)
	names       map[string]tval
	results     []tval
	resultNames []string
	loop        *loopInfo
	fn          *ssa.Function // function whose scope resolves package-level names
	pkg         *types.Package
	depth       int
	noDef       bool // inside a define-fun-rec body: no side definitions
	inOld       bool
	fvAddrs     map[string]tval // captured variables of a closure: name -> address
	fvSrc       map[string]ssa.Value // the FreeVar (inside the literal) or the bound Alloc (at the MakeClosure)
	iterFrom    *ssa.BasicBlock // iteration-ensures: names resolve to values that dominate this back-edge source
	iterLoop    *loopInfo       // iteration-ensures: the loop, for athead(x)
	lenientLocals bool          // at-return: a local without a value on this path is an arbitrary value
	cbApply     func(param string, args []tval) string // host postconditions: cb(f, args...) = what the literal passed for f returns on args
}

type specError string

func (en *env) fail(format string, args ...interface{}) {
	panic(unsupported("contract: " + fmt.Sprintf(format, args...)))
}

// contractEnv: names are the function's own parameters, named results and source
// variables (resolved through debug info).
func (e *fnEnc) contractEnv(st, old *state, li *loopInfo) *env {
	en := &env{e: e, st: st, old: old, names: map[string]tval{}, loop: li, fn: e.fn, fvAddrs: e.freevars, fvSrc: map[string]ssa.Value{}}
	for _, fv := range e.fn.FreeVars {
		en.fvSrc[fv.Name()] = fv
	}
	for k, v := range e.params {
		en.names[k] = v
	}
	if e.fn.Pkg != nil {
		en.pkg = e.fn.Pkg.Pkg
	} else if e.fn.Parent() != nil && e.fn.Parent().Pkg != nil {
		en.pkg = e.fn.Parent().Pkg.Pkg
	}
	return en
}

// calleeEnv: names are the callee's parameter names bound to the call's arguments.
func (e *fnEnc) calleeEnv(st, old *state, c *ssa.CallCommon, callee *ssa.Function, args []tval) *env {
	en := &env{e: e, st: st, old: old, names: map[string]tval{}}
	if mc, ok := c.Value.(*ssa.MakeClosure); ok && callee != nil {
		en.fvAddrs = map[string]tval{}
		en.fvSrc = map[string]ssa.Value{}
		for i, fv := range callee.FreeVars {
			if i < len(mc.Bindings) {
				en.fvAddrs[fv.Name()] = tval{term: e.val(mc.Bindings[i]), typ: fv.Type()}
				en.fvSrc[fv.Name()] = mc.Bindings[i]
			}
		}
	}
	sig := c.Signature()
	var names []string
	if callee != nil && len(callee.Params) == len(args) {
		for _, p := range callee.Params {
			names = append(names, p.Name())
		}
		if callee.Pkg != nil {
			en.pkg = callee.Pkg.Pkg
		}
		en.fn = callee
	} else {
		if c.IsInvoke() {
			names = append(names, "recv")
		} else if sig.Recv() != nil {
			names = append(names, sig.Recv().Name())
		}
		for i := 0; i < sig.Params().Len(); i++ {
			names = append(names, sig.Params().At(i).Name())
		}
		if c.IsInvoke() {
			if n, ok := c.Value.Type().(*types.Named); ok {
				en.pkg = n.Obj().Pkg()
			}
		}
	}
	for i, a := range args {
		if i < len(names) && names[i] != "" && names[i] != "_" {
			en.names[names[i]] = a
		}
		en.names[fmt.Sprintf("arg%d", i)] = a
	}
	return en
}

func (en *env) setResults(fn *ssa.Function, res []tval) {
	en.results = res
	rs := fn.Signature.Results()
	en.resultNames = nil
	for i := 0; i < rs.Len(); i++ {
		en.resultNames = append(en.resultNames, rs.At(i).Name())
	}
}

func (en *env) with(name string, v tval) *env {
	c := *en
	c.names = make(map[string]tval, len(en.names)+1)
	for k, x := range en.names {
		c.names[k] = x
	}
	c.names[name] = v
	return &c
}

// ---------------------------------------------------------------------------

var typUntypedInt = types.Typ[types.UntypedInt]

func (en *env) evalBool(x Expr) string {
	v := en.eval(x)
	if en.e.sortOf(v.typ).kind != skBool {
		en.fail("expected a boolean, got %s", v.typ)
	}
	return v.term
}

func (en *env) lookupType(name string) types.Type {
	switch {
	case strings.HasPrefix(name, "[]"):
		return types.NewSlice(en.lookupType(name[2:]))
	case strings.HasPrefix(name, "*"):
		return types.NewPointer(en.lookupType(name[1:]))
	case strings.HasPrefix(name, "["):
		j := strings.Index(name, "]")
		var n int64
		fmt.Sscanf(name[1:j], "%d", &n)
		return types.NewArray(en.lookupType(name[j+1:]), n)
	}
	if name == "bv256" {
		return types.NewArray(types.Typ[types.Uint8], 32)
	}
	if name == "bv128" {
		return types.NewArray(types.Typ[types.Uint8], 16)
	}
	if o := types.Universe.Lookup(name); o != nil {
		if tn, ok := o.(*types.TypeName); ok {
			return tn.Type()
		}
	}
	if i := strings.Index(name, "."); i > 0 && en.pkg != nil {
		for _, imp := range en.pkg.Imports() {
			if imp.Name() == name[:i] {
				if o := imp.Scope().Lookup(name[i+1:]); o != nil {
					if tn, ok := o.(*types.TypeName); ok {
						return tn.Type()
					}
				}
			}
		}
		// full search over all loaded packages by package name
		for _, p := range en.e.V.P.byPath {
			if p.Types != nil && p.Types.Name() == name[:i] {
				if o := p.Types.Scope().Lookup(name[i+1:]); o != nil {
					if tn, ok := o.(*types.TypeName); ok {
						return tn.Type()
					}
				}
			}
		}
	}
	if en.pkg != nil {
		if o := en.pkg.Scope().Lookup(name); o != nil {
			if tn, ok := o.(*types.TypeName); ok {
				return tn.Type()
			}
		}
	}
	return nil
}

func (en *env) intLit(v *big.Int, t types.Type) tval {
	s := en.e.sortOf(t)
	return tval{term: bvBig(s.width, v), typ: t}
}

// unify brings two operands to a common type (untyped constants adopt the other side).
func (en *env) unify(a, b tval) (tval, tval) {
	if a.lit != nil && b.lit != nil {
		return en.intLit(a.lit.v, types.Typ[types.Int]), en.intLit(b.lit.v, types.Typ[types.Int])
	}
	if a.lit != nil {
		if !isInteger(b.typ) {
			en.fail("integer literal combined with %s", b.typ)
		}
		return en.intLit(a.lit.v, b.typ), b
	}
	if b.lit != nil {
		if !isInteger(a.typ) {
			en.fail("integer literal combined with %s", a.typ)
		}
		return a, en.intLit(b.lit.v, a.typ)
	}
	sa, sb := en.e.sortOf(a.typ), en.e.sortOf(b.typ)
	if sa.kind == skBV && sb.kind == skBV && sa.width != sb.width {
		en.fail("operands of different widths: %s vs %s (add a conversion)", a.typ, b.typ)
	}
	return a, b
}

func (en *env) coerceInt(a tval) tval {
	if a.lit != nil {
		return en.intLit(a.lit.v, types.Typ[types.Int])
	}
	return a
}

func (en *env) coerceTo(a tval, t types.Type) tval {
	if a.lit != nil {
		if isInteger(t) {
			return en.intLit(a.lit.v, t)
		}
		if n, ok := isByteArrayBV(t); ok {
			return tval{term: bvBig(8*n, a.lit.v), typ: t}
		}
		en.fail("integer literal where %s is expected", t)
	}
	if _, isNil := a.typ.(*types.Basic); isNil && a.typ.(*types.Basic).Kind() == types.UntypedNil {
		return tval{term: en.e.V.ST.zeroValue(en.e.sortOf(t)), typ: t}
	}
	return a
}

func (en *env) eval(x Expr) tval {
	switch v := x.(type) {
	case *EInt:
		return tval{typ: typUntypedInt, lit: &bigLit{v.Val}}
	case *EBool:
		if v.Val {
			return tval{term: "true", typ: types.Typ[types.Bool]}
		}
		return tval{term: "false", typ: types.Typ[types.Bool]}
	case *ENil:
		return tval{term: "null", typ: types.Typ[types.UntypedNil]}
	case *EIdent:
		return en.ident(v.Name)
	case *EOld:
		c := *en
		c.st = en.old
		c.inOld = true
		return c.eval(v.X)
	case *ELet:
		val := en.coerceInt(en.eval(v.Val))
		return en.with(v.Name, val).eval(v.Body)
	case *EUnary:
		return en.unary(v)
	case *EBinary:
		return en.binary(v)
	case *ECond:
		c := en.evalBool(v.C)
		a, b := en.unify(en.eval(v.A), en.eval(v.B))
		a, b = en.nilFix(a, b)
		return tval{term: ite(c, a.term, b.term), typ: a.typ}
	case *ECall:
		return en.callExpr(v)
	case *EIndex:
		return en.indexExpr(v)
	case *ESliceE:
		return en.sliceExpr(v)
	case *ESelector:
		return en.selector(v)
	case *EQuant:
		return en.quant(v)
	}
	en.fail("cannot evaluate %T", x)
	return tval{}
}

func (en *env) nilFix(a, b tval) (tval, tval) {
	if isUntypedNil(a.typ) && !isUntypedNil(b.typ) {
		a = en.coerceTo(a, b.typ)
	}
	if isUntypedNil(b.typ) && !isUntypedNil(a.typ) {
		b = en.coerceTo(b, a.typ)
	}
	return a, b
}

func isUntypedNil(t types.Type) bool {
	b, ok := t.(*types.Basic)
	return ok && b.Kind() == types.UntypedNil
}

func (en *env) ident(name string) tval {
	// inside a loop invariant a name means the current value of the source variable;
	// old(name) means the value on function entry
	if en.loop != nil && !en.inOld && en.fn != nil && en.fn == en.e.fn {
		if _, isParam := en.e.params[name]; isParam {
			if v, ok := en.e.resolveLoopPhi(name, en.loop); ok {
				return v
			}
			// a parameter that was reassigned before the loop: its current value
			if v, ok := en.e.resolveSourceVar(name, en.loop, en.st); ok {
				return v
			}
		}
	}
	if v, ok := en.names[name]; ok {
		return v
	}
	// captured variable of a closure: its current value
	if a, ok := en.fvAddrs[name]; ok {
		if src, ok := en.fvSrc[name]; ok {
			if al, isAlloc := src.(*ssa.Alloc); isAlloc {
				if lv, isLocal := en.st.locals[al]; isLocal {
					if pt, isPtr := a.typ.Underlying().(*types.Pointer); isPtr {
						return tval{term: lv, typ: pt.Elem()}
					}
				}
			}
			if cv, isConst := en.e.constCell(src); isConst {
				if pt, isPtr := a.typ.Underlying().(*types.Pointer); isPtr {
					return tval{term: cv, typ: pt.Elem()}
				}
			}
		}
		if pt, isPtr := a.typ.Underlying().(*types.Pointer); isPtr {
			return tval{term: en.e.loadValue(en.st, a.term, pt.Elem()), typ: pt.Elem()}
		}
		return a
	}
	// results
	if name == "result" && len(en.results) >= 1 {
		return en.results[0]
	}
	if strings.HasPrefix(name, "result") && len(name) == 7 {
		i := int(name[6] - '0')
		if i < len(en.results) {
			return en.results[i]
		}
	}
	for i, rn := range en.resultNames {
		if rn == name && i < len(en.results) {
			return en.results[i]
		}
	}
	// source-level variables of the function being verified
	if en.fn != nil && en.fn == en.e.fn {
		if en.iterFrom != nil {
			saved := en.e.curBlock
			en.e.curBlock = en.iterFrom
			v, ok := en.e.resolveSourceVar(name, nil, en.st)
			en.e.curBlock = saved
			if ok {
				return v
			}
		} else if v, ok := en.e.resolveSourceVar(name, en.loop, en.st); ok {
			return v
		}
		if en.lenientLocals {
			// a branch-local variable with a single definition: its value if that block was
			// executed on the way here, otherwise an arbitrary value
			if v, blk, ok := en.e.singleDefinition(name); ok {
				if r, has := en.e.reachAt[blk]; has {
					if tv, defined := en.e.vals[v]; defined {
						t := v.Type()
						k := "undef_" + name
						u, seen := en.names[k]
						if !seen {
							n := en.e.declareInput(en.st, "undef_"+name, t)
							u = tval{term: n, typ: t}
							en.names[k] = u
						}
						return tval{term: ite(r, tv, u.term), typ: t}
					}
				}
			}
			if t := en.e.sourceVarType(name); t != nil {
				k := "undef_" + name
				if v, ok := en.names[k]; ok {
					return v
				}
				n := en.e.declareInput(en.st, "undef_"+name, t)
				en.names[k] = tval{term: n, typ: t}
				return en.names[k]
			}
		}
	}
	// package-level constants and variables
	if en.pkg != nil {
		if o := en.pkg.Scope().Lookup(name); o != nil {
			return en.object(o)
		}
	}
	en.fail("unknown identifier %q", name)
	return tval{}
}

func (en *env) object(o types.Object) tval {
	switch ob := o.(type) {
	case *types.Const:
		if ob.Val().Kind() == constant.Int {
			bi, _ := new(big.Int).SetString(ob.Val().ExactString(), 10)
			if b, ok := ob.Type().(*types.Basic); ok && b.Info()&types.IsUntyped != 0 {
				return tval{typ: typUntypedInt, lit: &bigLit{bi}}
			}
			return en.intLit(bi, ob.Type())
		}
		if ob.Val().Kind() == constant.Bool {
			if constant.BoolVal(ob.Val()) {
				return tval{term: "true", typ: types.Typ[types.Bool]}
			}
			return tval{term: "false", typ: types.Typ[types.Bool]}
		}
		if ob.Val().Kind() == constant.String {
			return tval{term: en.e.V.strConstName(constant.StringVal(ob.Val())), typ: types.Typ[types.String]}
		}
	case *types.Var:
		// package-level variable: load its current value
		for _, p := range en.e.V.P.Prog.AllPackages() {
			if p.Pkg == ob.Pkg() {
				if g, ok := p.Members[ob.Name()].(*ssa.Global); ok {
					addr := en.e.V.globalRef(g)
					return tval{term: en.e.loadValue(en.st, addr, ob.Type()), typ: ob.Type()}
				}
			}
		}
	}
	en.fail("cannot use object %s", o)
	return tval{}
}

func (en *env) unary(v *EUnary) tval {
	x := en.eval(v.X)
	switch v.Op {
	case "!":
		return tval{term: not(x.term), typ: types.Typ[types.Bool]}
	case "-":
		if x.lit != nil {
			return tval{typ: typUntypedInt, lit: &bigLit{new(big.Int).Neg(x.lit.v)}}
		}
		return tval{term: app("bvneg", x.term), typ: x.typ}
	case "^":
		x = en.coerceInt(x)
		return tval{term: app("bvnot", x.term), typ: x.typ}
	case "*":
		p, ok := x.typ.Underlying().(*types.Pointer)
		if !ok {
			en.fail("dereference of non-pointer %s", x.typ)
		}
		return tval{term: en.e.loadValue(en.st, x.term, p.Elem()), typ: p.Elem()}
	case "&":
		a, t := en.addrOf(v.X)
		return tval{term: a, typ: types.NewPointer(t)}
	}
	en.fail("unary %s", v.Op)
	return tval{}
}

func (en *env) binary(v *EBinary) tval {
	boolT := types.Typ[types.Bool]
	switch v.Op {
	case "&&":
		return tval{term: and(en.evalBool(v.X), en.evalBool(v.Y)), typ: boolT}
	case "||":
		return tval{term: or(en.evalBool(v.X), en.evalBool(v.Y)), typ: boolT}
	case "==>":
		return tval{term: implies(en.evalBool(v.X), en.evalBool(v.Y)), typ: boolT}
	case "<==>":
		return tval{term: eq(en.evalBool(v.X), en.evalBool(v.Y)), typ: boolT}
	}
	a, b := en.eval(v.X), en.eval(v.Y)
	// constant folding of untyped literals
	if a.lit != nil && b.lit != nil {
		r := new(big.Int)
		switch v.Op {
		case "+":
			return tval{typ: typUntypedInt, lit: &bigLit{r.Add(a.lit.v, b.lit.v)}}
		case "-":
			return tval{typ: typUntypedInt, lit: &bigLit{r.Sub(a.lit.v, b.lit.v)}}
		case "*":
			return tval{typ: typUntypedInt, lit: &bigLit{r.Mul(a.lit.v, b.lit.v)}}
		case "/":
			return tval{typ: typUntypedInt, lit: &bigLit{r.Quo(a.lit.v, b.lit.v)}}
		case "%":
			return tval{typ: typUntypedInt, lit: &bigLit{r.Rem(a.lit.v, b.lit.v)}}
		case "<<":
			return tval{typ: typUntypedInt, lit: &bigLit{r.Lsh(a.lit.v, uint(b.lit.v.Uint64()))}}
		case ">>":
			return tval{typ: typUntypedInt, lit: &bigLit{r.Rsh(a.lit.v, uint(b.lit.v.Uint64()))}}
		}
	}
	if v.Op == "<<" || v.Op == ">>" {
		a = en.coerceInt(a)
		w := en.e.sortOf(a.typ).width
		var cnt string
		if b.lit != nil {
			cnt = bvBig(w, b.lit.v)
		} else {
			bw := en.e.sortOf(b.typ).width
			if bw < w {
				cnt = convInt(b.term, bw, w, false)
			} else if bw > w {
				cnt = ite(app("bvuge", b.term, bvLit(bw, uint64(w))), bvLit(w, uint64(w)), convInt(b.term, bw, w, false))
			} else {
				cnt = b.term
			}
		}
		op := "bvshl"
		if v.Op == ">>" {
			op = "bvlshr"
			if isSigned(a.typ) {
				op = "bvashr"
			}
		}
		return tval{term: app(op, a.term, cnt), typ: a.typ}
	}
	a, b = en.nilFix(a, b)
	if !isUntypedNil(a.typ) || !isUntypedNil(b.typ) {
		if !(isUntypedNil(a.typ) || isUntypedNil(b.typ)) {
			a, b = en.unify(a, b)
		}
	}
	s := en.e.sortOf(a.typ)
	signed := isSigned(a.typ)
	switch v.Op {
	case "==", "!=", "===", "!==":
		var r string
		if s.kind == skSlice && v.Op[0] != '=' || s.kind == skSlice && len(v.Op) == 2 {
			// == on slices: comparison with nil means base == null; otherwise header identity
			if isNilTerm(b.term) {
				r = eq(app("s_base", a.term), "null")
			} else if isNilTerm(a.term) {
				r = eq(app("s_base", b.term), "null")
			} else {
				r = en.sliceIdent(a.term, b.term)
			}
		} else if s.kind == skSlice {
			r = en.sliceIdent(a.term, b.term)
		} else {
			r = eq(a.term, b.term)
		}
		if v.Op[0] == '!' {
			r = not(r)
		}
		return tval{term: r, typ: boolT}
	case "<", "<=", ">", ">=":
		if s.kind != skBV {
			en.fail("ordering on %s", a.typ)
		}
		ops := map[string][2]string{"<": {"bvult", "bvslt"}, "<=": {"bvule", "bvsle"}, ">": {"bvugt", "bvsgt"}, ">=": {"bvuge", "bvsge"}}
		op := ops[v.Op][0]
		if signed {
			op = ops[v.Op][1]
		}
		return tval{term: app(op, a.term, b.term), typ: boolT}
	}
	if s.kind != skBV {
		en.fail("arithmetic on %s", a.typ)
	}
	var op string
	switch v.Op {
	case "+":
		op = "bvadd"
	case "-":
		op = "bvsub"
	case "*":
		op = "bvmul"
	case "/":
		op = "bvudiv"
		if signed {
			op = "bvsdiv"
		}
	case "%":
		op = "bvurem"
		if signed {
			op = "bvsrem"
		}
	case "&":
		op = "bvand"
	case "|":
		op = "bvor"
	case "^":
		op = "bvxor"
	case "&^":
		return tval{term: app("bvand", a.term, app("bvnot", b.term)), typ: a.typ}
	default:
		en.fail("operator %s", v.Op)
	}
	return tval{term: app(op, a.term, b.term), typ: a.typ}
}

func isNilTerm(t string) bool { return t == "null" || t == "nil_slice" || t == "nil_iface" }

// sliceIdent: same backing store, offset and length (capacity is not compared).
func (en *env) sliceIdent(a, b string) string {
	return and(eq(app("s_base", a), app("s_base", b)), eq(app("s_off", a), app("s_off", b)), eq(app("s_len", a), app("s_len", b)))
}

func (en *env) indexExpr(v *EIndex) tval {
	// an element of an array that lives in memory (a struct field like tab.buckets): read the
	// element's own cell instead of loading the array as a value and selecting from it
	if _, isSel := v.X.(*ESelector); isSel {
		if a, at, ok := en.tryAddrOf(v.X); ok && at != nil {
			if arr, isArr := at.Underlying().(*types.Array); isArr {
				if _, isBV := isByteArrayBV(at); !isBV && arr.Len() <= 64 {
					i := en.eval(v.I)
					return tval{term: en.e.loadValue(en.st, idxAddr(a, en.toIdx(i)), arr.Elem()), typ: arr.Elem()}
				}
			}
		}
	}
	x := en.eval(v.X)
	i := en.eval(v.I)
	switch u := x.typ.Underlying().(type) {
	case *types.Slice:
		ii := en.toIdx(i)
		addr := idxAddr(app("s_base", x.term), bvadd(app("s_off", x.term), ii))
		return tval{term: en.e.loadValue(en.st, addr, u.Elem()), typ: u.Elem()}
	case *types.Array:
		ii := en.toIdx(i)
		if n, ok := isByteArrayBV(x.typ); ok {
			return tval{term: byteOfBV(x.term, n, ii), typ: u.Elem()}
		}
		return tval{term: fmt.Sprintf("(select %s %s)", x.term, ii), typ: u.Elem()}
	case *types.Pointer:
		if arr, ok := u.Elem().Underlying().(*types.Array); ok {
			ii := en.toIdx(i)
			return tval{term: en.e.loadValue(en.st, idxAddr(x.term, ii), arr.Elem()), typ: arr.Elem()}
		}
	case *types.Basic:
		if u.Info()&types.IsString != 0 {
			return tval{term: app("strbyte", x.term, en.toIdx(i)), typ: types.Typ[types.Uint8]}
		}
	case *types.Map:
		hk, vk, _, vs := en.e.mapKeys(x.typ)
		k := en.coerceTo(i, u.Key())
		has := fmt.Sprintf("(select (select %s %s) %s)", en.e.heap(en.st, hk, mapCellSorts[hk]), x.term, k.term)
		val := fmt.Sprintf("(select (select %s %s) %s)", en.e.heap(en.st, vk, mapCellSorts[vk]), x.term, k.term)
		return tval{term: ite(and(not(eq(x.term, "null")), has), val, en.e.V.ST.zeroValue(vs)), typ: u.Elem()}
	}
	en.fail("index of %s", x.typ)
	return tval{}
}

func (en *env) toIdx(i tval) string {
	if i.lit != nil {
		return bvBig(64, i.lit.v)
	}
	s := en.e.sortOf(i.typ)
	if s.kind != skBV {
		en.fail("index of type %s", i.typ)
	}
	return convInt(i.term, s.width, 64, isSigned(i.typ))
}

func (en *env) sliceExpr(v *ESliceE) tval {
	x := en.eval(v.X)
	if _, ok := x.typ.Underlying().(*types.Slice); !ok {
		en.fail("slice expression on %s", x.typ)
	}
	lo := bvLit(64, 0)
	if v.Lo != nil {
		lo = en.toIdx(en.eval(v.Lo))
	}
	hi := app("s_len", x.term)
	if v.Hi != nil {
		hi = en.toIdx(en.eval(v.Hi))
	}
	return tval{term: fmt.Sprintf("(mkslice (s_base %s) %s (bvsub %s %s) (bvsub (s_cap %s) %s))", x.term, bvadd(app("s_off", x.term), lo), hi, lo, x.term, lo), typ: x.typ}
}

func (en *env) selector(v *ESelector) tval {
	// package-qualified name?
	if id, ok := v.X.(*EIdent); ok {
		if _, isVar := en.names[id.Name]; !isVar {
			if p := en.findPackage(id.Name); p != nil {
				if o := p.Scope().Lookup(v.Name); o != nil {
					return en.object(o)
				}
			}
		}
	}
	a, t, isAddr := en.fieldAccess(v)
	if isAddr {
		val := en.e.loadValue(en.st, a, t)
		// Go's memory-safety invariant for a reference read out of memory in a specification:
		// it points to an object that is allocated in the state the clause is evaluated in
		// (the same assumption every load in the program gets)
		switch t.Underlying().(type) {
		case *types.Slice, *types.Pointer, *types.Map, *types.Chan:
			if !strings.Contains(val, "q_") && !en.noDef && en.st != nil && en.st.reach != "false" {
				k := "wf|" + en.st.next + "|" + val
				if !en.e.invSeen[k] {
					en.e.invSeen[k] = true
					switch t.Underlying().(type) {
					case *types.Slice:
						en.e.assume(en.st, and(app("slice_wf", val), fmt.Sprintf("(< (rootn (s_base %s)) %s)", val, en.st.next)))
					default:
						en.e.assume(en.st, and(app("ref_wf", val), fmt.Sprintf("(< (rootn %s) %s)", val, en.st.next)))
					}
				}
			}
		}
		return tval{term: val, typ: t}
	}
	return tval{term: a, typ: t}
}

func (en *env) findPackage(name string) *types.Package {
	if en.pkg != nil {
		for _, imp := range en.pkg.Imports() {
			if imp.Name() == name {
				return imp
			}
		}
	}
	// spec files have no package of their own: search every loaded package by name
	var best *types.Package
	for _, k := range sortedKeys(en.e.V.P.byPath) {
		p := en.e.V.P.byPath[k]
		if p.Types != nil && p.Types.Name() == name {
			if best == nil || len(p.PkgPath) < len(best.Path()) {
				best = p.Types
			}
		}
	}
	return best
}

// fieldAccess returns either the address of the field (through a pointer) or its value.
func (en *env) fieldAccess(v *ESelector) (string, types.Type, bool) {
	// a field of a struct that is itself stored in memory (x.a.b, x[i].f): address arithmetic
	if addr, bt, ok := en.tryAddrOf(v.X); ok {
		if _, isStruct := bt.Underlying().(*types.Struct); isStruct {
			return en.fieldOfAddr(addr, bt, v.Name)
		}
	}
	x := en.eval(v.X)
	t := x.typ
	isPtr := false
	if p, ok := t.Underlying().(*types.Pointer); ok {
		t = p.Elem()
		isPtr = true
	}
	st, ok := t.Underlying().(*types.Struct)
	if !ok {
		en.fail("selector .%s on %s", v.Name, x.typ)
	}
	obj, path, _ := types.LookupFieldOrMethod(t, true, en.pkgOf(t), v.Name)
	if obj == nil {
		// unexported field of another package: search by name
		for i := 0; i < st.NumFields(); i++ {
			if st.Field(i).Name() == v.Name {
				path = []int{i}
				obj = st.Field(i)
			}
		}
	}
	fv, ok := obj.(*types.Var)
	if !ok || len(path) == 0 {
		en.fail("no field %s in %s", v.Name, t)
	}
	if isPtr {
		addr := x.term
		cur := t
		for _, k := range path {
			s := cur.Underlying().(*types.Struct)
			ft := s.Field(k).Type()
			addr = fldAddr(addr, k)
			if p, ok := ft.Underlying().(*types.Pointer); ok && k != path[len(path)-1] {
				addr = en.e.loadValue(en.st, addr, ft)
				cur = p.Elem()
			} else {
				cur = ft
			}
		}
		return addr, fv.Type(), true
	}
	term := x.term
	cur := t
	for _, k := range path {
		s := cur.Underlying().(*types.Struct)
		srt := en.e.sortOf(cur)
		term = fmt.Sprintf("(%s_f%d %s)", srt.name, k, term)
		cur = s.Field(k).Type()
	}
	return term, fv.Type(), false
}

// tryAddrOf: the address of an lvalue expression, if it is one (selector chains through
// pointers, element accesses, dereferences); never fails.
func (en *env) tryAddrOf(x Expr) (addr string, t types.Type, ok bool) {
	switch x.(type) {
	case *ESelector, *EIndex, *EUnary:
	default:
		return "", nil, false
	}
	defer func() {
		if r := recover(); r != nil {
			if _, isU := r.(unsupported); isU {
				ok = false
				return
			}
			panic(r)
		}
	}()
	if sel, isSel := x.(*ESelector); isSel {
		if id, isId := sel.X.(*EIdent); isId {
			if _, isVar := en.names[id.Name]; !isVar && en.findPackage(id.Name) != nil {
				if _, shadow := en.fvAddrs[id.Name]; !shadow {
					return "", nil, false // package-qualified name
				}
			}
		}
		a, ft, isAddr := en.fieldAccess(sel)
		if !isAddr {
			return "", nil, false
		}
		return a, ft, true
	}
	a, at := en.addrOf(x)
	return a, at, true
}

func (en *env) fieldOfAddr(addr string, t types.Type, name string) (string, types.Type, bool) {
	st := t.Underlying().(*types.Struct)
	obj, path, _ := types.LookupFieldOrMethod(t, true, en.pkgOf(t), name)
	if obj == nil {
		for i := 0; i < st.NumFields(); i++ {
			if st.Field(i).Name() == name {
				path = []int{i}
				obj = st.Field(i)
			}
		}
	}
	fv, ok := obj.(*types.Var)
	if !ok || len(path) == 0 {
		en.fail("no field %s in %s", name, t)
	}
	cur := t
	for _, k := range path {
		s := cur.Underlying().(*types.Struct)
		ft := s.Field(k).Type()
		addr = fldAddr(addr, k)
		if p, ok := ft.Underlying().(*types.Pointer); ok && k != path[len(path)-1] {
			addr = en.e.loadValue(en.st, addr, ft)
			cur = p.Elem()
		} else {
			cur = ft
		}
	}
	return addr, fv.Type(), true
}

func (en *env) pkgOf(t types.Type) *types.Package {
	if n, ok := t.(*types.Named); ok && n.Obj() != nil {
		return n.Obj().Pkg()
	}
	return en.pkg
}

// addrOf evaluates an lvalue expression to its address.
func (en *env) addrOf(x Expr) (string, types.Type) {
	switch v := x.(type) {
	case *ESelector:
		a, t, isAddr := en.fieldAccess(v)
		if !isAddr {
			en.fail("not addressable: field of a struct value")
		}
		return a, t
	case *EIndex:
		b := en.eval(v.X)
		i := en.toIdx(en.eval(v.I))
		switch u := b.typ.Underlying().(type) {
		case *types.Slice:
			return idxAddr(app("s_base", b.term), bvadd(app("s_off", b.term), i)), u.Elem()
		case *types.Pointer:
			if arr, ok := u.Elem().Underlying().(*types.Array); ok {
				return idxAddr(b.term, i), arr.Elem()
			}
		}
	case *EUnary:
		if v.Op == "*" {
			p := en.eval(v.X)
			if pt, ok := p.typ.Underlying().(*types.Pointer); ok {
				return p.term, pt.Elem()
			}
		}
	case *EIdent:
		// a package-level variable
		if en.pkg != nil {
			if o, ok := en.pkg.Scope().Lookup(v.Name).(*types.Var); ok {
				for _, p := range en.e.V.P.Prog.AllPackages() {
					if p.Pkg == o.Pkg() {
						if g, ok := p.Members[o.Name()].(*ssa.Global); ok {
							return en.e.V.globalRef(g), o.Type()
						}
					}
				}
			}
		}
	}
	en.fail("not an lvalue")
	return "", nil
}

type modAddr struct {
	addr   string
	typ    types.Type
	region string // slice term: all elements
	sort   *Sort
	mapObj string // map (or ghost map) handle: its whole content
	mapTyp types.Type
	ghostFlag string
}

// modAddrs expands one `modifies` item: an lvalue, or elems(s).
func (en *env) modAddrs(m Expr) (res []modAddr) {
	defer func() {
		if r := recover(); r != nil {
			if u, ok := r.(unsupported); ok && strings.Contains(string(u), "unknown type") {
				// names a type of a package this run did not load: no value of that dynamic
				// type exists in the program, the item is vacuous
				res = nil
				return
			}
			panic(r)
		}
	}()
	return en.modAddrs1(m)
}

func (en *env) modAddrs1(m Expr) []modAddr {
	if c, ok := m.(*ECall); ok && c.Fun == "flag" {
		x := en.eval(c.Args[0])
		ref := x.term
		if en.e.sortOf(x.typ).kind == skIface {
			ref = app("i_val", x.term)
		}
		return []modAddr{{ghostFlag: ref}}
	}
	if c, ok := m.(*ECall); ok && c.Fun == "spare" {
		// spare(s): the spare capacity of s (cells len(s) .. cap(s)-1 of its backing array)
		s := en.eval(c.Args[0])
		sl, ok := s.typ.Underlying().(*types.Slice)
		if !ok {
			en.fail("spare() of %s", s.typ)
		}
		reg := fmt.Sprintf("(mkslice %s %s %s %s)", app("s_base", s.term), app("bvadd", app("s_off", s.term), app("s_len", s.term)),
			app("bvsub", app("s_cap", s.term), app("s_len", s.term)), app("bvsub", app("s_cap", s.term), app("s_len", s.term)))
		return []modAddr{{region: reg, sort: en.e.sortOf(sl.Elem()), typ: sl.Elem()}}
	}
	if c, ok := m.(*ECall); ok && c.Fun == "backing" {
		// backing(s): every cell of s's backing array that s can reach (len(s) elements and the
		// spare capacity)
		s := en.eval(c.Args[0])
		sl, ok := s.typ.Underlying().(*types.Slice)
		if !ok {
			en.fail("backing() of %s", s.typ)
		}
		reg := fmt.Sprintf("(mkslice %s %s %s %s)", app("s_base", s.term), app("s_off", s.term), app("s_cap", s.term), app("s_cap", s.term))
		return []modAddr{{region: reg, sort: en.e.sortOf(sl.Elem()), typ: sl.Elem()}}
	}
	if c, ok := m.(*ECall); ok && c.Fun == "elems" {
		s := en.eval(c.Args[0])
		sl, ok := s.typ.Underlying().(*types.Slice)
		if !ok {
			en.fail("elems() of %s", s.typ)
		}
		return []modAddr{{region: s.term, sort: en.e.sortOf(sl.Elem()), typ: sl.Elem()}}
	}
	if c, ok := m.(*ECall); ok && (c.Fun == "gmap" || c.Fun == "content") {
		var v tval
		if c.Fun == "content" {
			v = en.eval(c.Args[0])
		} else {
			v = en.eval(m)
		}
		if _, isMap := v.typ.Underlying().(*types.Map); !isMap {
			en.fail("modifies %s(): not a map", c.Fun)
		}
		return []modAddr{{mapObj: v.term, mapTyp: v.typ}}
	}
	a, t := en.addrOf(m)
	return []modAddr{{addr: a, typ: t}}
}

// inModifies: is the written address covered by modifies item m?
func (en *env) inModifies(m Expr, addr string) string {
	var alts []string
	for _, ma := range en.modAddrs(m) {
		if ma.region != "" {
			alts = append(alts, app("in_slice", addr, ma.region))
			continue
		}
		if ma.mapObj != "" {
			alts = append(alts, eq(addr, ma.mapObj))
			continue
		}
		if ma.ghostFlag != "" {
			continue
		}
		alts = append(alts, en.cellCovers(ma.addr, ma.typ, addr))
	}
	return or(alts...)
}

func (en *env) cellCovers(base string, t types.Type, addr string) string {
	switch u := t.Underlying().(type) {
	case *types.Struct:
		var alts []string
		for i := 0; i < u.NumFields(); i++ {
			alts = append(alts, en.cellCovers(fldAddr(base, i), u.Field(i).Type(), addr))
		}
		return or(alts...)
	case *types.Array:
		// an element, or the array as a whole (a store of an array value is checked at the array's address)
		return or(eq(addr, base), and(fmt.Sprintf("((_ is idx) %s)", addr), eq(app("idx_b", addr), base), app("bvult", app("idx_i", addr), bvLit(64, uint64(u.Len())))))
	}
	return eq(addr, base)
}

func (en *env) regionInModifies(m Expr, dst string) string {
	for _, ma := range en.modAddrs(m) {
		if ma.region != "" {
			r := ma.region
			return and(eq(app("s_base", dst), app("s_base", r)), app("bvuge", app("s_off", dst), app("s_off", r)),
				app("bvule", app("bvadd", app("s_off", dst), app("s_len", dst)), app("bvadd", app("s_off", r), app("s_len", r))))
		}
	}
	return "false"
}

func (en *env) quant(v *EQuant) tval {
	cur := en
	var binders []string
	var ranges []string
	for _, p := range v.Vars {
		t := en.lookupType(p.Type)
		if t == nil {
			en.fail("unknown type %q in quantifier", p.Type)
		}
		s := en.e.sortOf(t)
		en.e.ctr++
		n := fmt.Sprintf("q_%s_%d", sanitize(p.Name), en.e.ctr)
		binders = append(binders, fmt.Sprintf("(%s %s)", n, s.name))
		cur = cur.with(p.Name, tval{term: n, typ: t})
		cur.noDef = true
		if s.kind == skSlice {
			ranges = append(ranges, app("slice_wf", n))
		}
	}
	body := cur.evalBool(v.Body)
	if len(ranges) > 0 {
		if v.Forall {
			body = implies(and(ranges...), body)
		} else {
			body = and(append(ranges, body)...)
		}
	}
	var pats []string
	for _, tr := range v.Triggers {
		var ts []string
		for _, t := range tr {
			ts = append(ts, cur.eval(t).term)
		}
		pats = append(pats, ":pattern ("+strings.Join(ts, " ")+")")
	}
	if len(pats) > 0 {
		body = "(! " + body + " " + strings.Join(pats, " ") + ")"
	}
	q := "forall"
	if !v.Forall {
		q = "exists"
	}
	en.e.hasQuant = true
	return tval{term: fmt.Sprintf("(%s (%s) %s)", q, strings.Join(binders, " "), body), typ: types.Typ[types.Bool]}
}

func (en *env) callExpr(v *ECall) tval {
	boolT := types.Typ[types.Bool]
	switch v.Fun {
	case "len", "cap":
		x := en.eval(v.Args[0])
		switch u := x.typ.Underlying().(type) {
		case *types.Slice:
			f := "s_len"
			if v.Fun == "cap" {
				f = "s_cap"
			}
			return tval{term: app(f, x.term), typ: types.Typ[types.Int]}
		case *types.Basic:
			return tval{term: app("strlen", x.term), typ: types.Typ[types.Int]}
		case *types.Array:
			return tval{typ: typUntypedInt, lit: &bigLit{big.NewInt(u.Len())}}
		case *types.Map:
			mapCellSorts["maplen"] = sortBV64
			return tval{term: ite(eq(x.term, "null"), bvLit(64, 0), fmt.Sprintf("(select %s %s)", en.e.heap(en.st, "maplen", sortBV64), x.term)), typ: types.Typ[types.Int]}
		case *types.Chan:
			if v.Fun == "cap" {
				return tval{term: en.e.chanCap(x.term), typ: types.Typ[types.Int]}
			}
		}
		en.fail("%s of %s", v.Fun, x.typ)
	case "gmap":
		// gmap(obj, K, V): the ghost map view of an opaque container object (an interface
		// or pointer value): a map[K]V handle at the object's reference
		x := en.eval(v.Args[0])
		kt, vt := en.typeArg(v.Args[1]), en.typeArg(v.Args[2])
		ref := x.term
		if en.e.sortOf(x.typ).kind == skIface {
			ref = app("i_val", x.term)
		}
		return tval{term: ref, typ: types.NewMap(kt, vt)}
	case "unbox":
		// unbox(e, T): the dynamic value of interface e viewed as pointer-shaped type T
		x := en.eval(v.Args[0])
		t := en.typeArg(v.Args[1])
		return tval{term: app("i_val", x.term), typ: t}
	case "flag":
		// flag(x): a monotone ghost flag on the object x refers to (set by contracts that list it
		// under modifies and ensure it; never reset; survives havocs)
		x := en.eval(v.Args[0])
		ref := x.term
		if en.e.sortOf(x.typ).kind == skIface {
			ref = app("i_val", x.term)
		}
		mapCellSorts["gflag"] = sortBool
		return tval{term: fmt.Sprintf("(select %s %s)", en.e.heap(en.st, "gflag", sortBool), ref), typ: types.Typ[types.Bool]}
	case "sent":
		// sent(ch, v): the pointer v was sent on channel ch by this function (ghost log filled by
		// send statements and select send cases). A value that is not defined on the path being
		// checked was not sent on it.
		ch := en.eval(v.Args[0])
		var val tval
		okv := func() (ok bool) {
			defer func() {
				if r := recover(); r != nil {
					if _, isU := r.(unsupported); isU && en.iterFrom != nil {
						ok = false
						return
					}
					panic(r)
				}
			}()
			val = en.eval(v.Args[1])
			return true
		}()
		if !okv {
			return tval{term: "false", typ: types.Typ[types.Bool]}
		}
		mapCellSorts["sentlog"] = &Sort{name: "(Array Ref Bool)"}
		return tval{term: fmt.Sprintf("(select (select %s %s) %s)", en.e.heap(en.st, "sentlog", mapCellSorts["sentlog"]), ch.term, val.term), typ: types.Typ[types.Bool]}
	case "athead":
		// athead(x), in an iteration-ensures clause: the value the loop variable x had at the
		// beginning of the iteration that just ended
		id, ok := v.Args[0].(*EIdent)
		if !ok && en.iterLoop != nil && en.iterLoop.headSt != nil {
			// athead(e) for a heap expression: e read in the memory at the beginning of the
			// iteration (identifiers inside e keep the iteration's own values)
			c := *en
			c.st = en.iterLoop.headSt
			return c.eval(v.Args[0])
		}
		if !ok || en.iterLoop == nil {
			en.fail("athead(x) needs a loop variable and an iteration-ensures clause")
		}
		for _, ins := range en.iterLoop.head.Instrs {
			phi, isPhi := ins.(*ssa.Phi)
			if !isPhi {
				break
			}
			if phi.Comment == id.Name {
				if t, has := en.iterLoop.phiPre[phi]; has {
					return tval{term: t, typ: phi.Type()}
				}
			}
		}
		// not carried by the loop (never reassigned on a path that continues): its value on
		// loop entry
		if tv, ok := en.e.resolveSourceVar(id.Name, en.iterLoop, en.st); ok {
			return tv
		}
		en.fail("athead(%s): no such loop variable", id.Name)
	case "sameobj":
		// sameobj(x, y): two references (of whatever static types) denote the same address; the
		// memory model is untyped, so separation of differently typed objects is stated with it
		x := en.eval(v.Args[0])
		y := en.eval(v.Args[1])
		if en.e.sortOf(x.typ).kind != skRef || en.e.sortOf(y.typ).kind != skRef {
			en.fail("sameobj of %s, %s", x.typ, y.typ)
		}
		return tval{term: eq(x.term, y.term), typ: boolT}
	case "cb":
		// cb(f, a1, ...): in the postcondition of a host that takes a function parameter f - the
		// value the function literal passed for f returns on these arguments, by the literal's
		// own (verified) postcondition `result <==> E`
		id, ok := v.Args[0].(*EIdent)
		if !ok || en.cbApply == nil || len(v.Args) < 2 {
			en.fail("cb(<function parameter>, args...) is only meaningful in a host's ensures")
		}
		var as []tval
		for _, a := range v.Args[1:] {
			as = append(as, en.eval(a))
		}
		return tval{term: en.cbApply(id.Name, as), typ: boolT}
	case "defined":
		// defined(x): in an at-return clause - the local variable x was assigned on the way to
		// this return (a variable declared after an early return has no value there)
		id, ok := v.Args[0].(*EIdent)
		if !ok {
			en.fail("defined(<local variable>)")
		}
		if en.fn != nil && en.fn == en.e.fn {
			if _, ok := en.e.resolveSourceVar(id.Name, en.loop, en.st); ok {
				return tval{term: "true", typ: boolT}
			}
			if sv, blk, ok := en.e.singleDefinition(id.Name); ok {
				if r, has := en.e.reachAt[blk]; has {
					if _, def := en.e.vals[sv]; def {
						return tval{term: r, typ: boolT}
					}
				}
			}
		}
		return tval{term: "false", typ: boolT}
	case "isroot":
		// isroot(x): the reference denotes a whole allocated object (the result of new / &T{}),
		// not a field or element inside another object - the memory model is untyped, so
		// "this *bucket is not a pointer into the Table" is stated with it
		x := en.eval(v.Args[0])
		if en.e.sortOf(x.typ).kind != skRef {
			en.fail("isroot of %s", x.typ)
		}
		return tval{term: fmt.Sprintf("((_ is obj) %s)", x.term), typ: boolT}
	case "entry":
		// entry(e): e evaluated in the state at function entry (in an after-call clause old()
		// is the state right before the call)
		c := *en
		c.st = en.e.entry
		c.old = en.e.entry
		c.inOld = true
		return c.eval(v.Args[0])
	case "soff":
		x := en.eval(v.Args[0])
		return tval{term: app("s_off", x.term), typ: types.Typ[types.Int]}
	case "sbase":
		x := en.eval(v.Args[0])
		return tval{term: app("s_base", x.term), typ: types.Typ[types.UnsafePointer]}
	case "unchanged":
		cur := en.eval(v.Args[0])
		c := *en
		c.st = en.old
		old := c.eval(v.Args[0])
		return tval{term: eq(cur.term, old.term), typ: boolT}
	case "fresh":
		x := en.eval(v.Args[0])
		switch en.e.sortOf(x.typ).kind {
		case skRef:
			return tval{term: fmt.Sprintf("(>= (rootn %s) %s)", x.term, en.old.next), typ: boolT}
		case skSlice:
			return tval{term: fmt.Sprintf("(>= (rootn (s_base %s)) %s)", x.term, en.old.next), typ: boolT}
		}
		en.fail("fresh of %s", x.typ)
	case "has":
		// has(m, k): map membership
		m := en.eval(v.Args[0])
		mt, ok := m.typ.Underlying().(*types.Map)
		if !ok {
			en.fail("has() of %s", m.typ)
		}
		hk, _, _, _ := en.e.mapKeys(m.typ)
		k := en.coerceTo(en.eval(v.Args[1]), mt.Key())
		return tval{term: and(not(eq(m.term, "null")), fmt.Sprintf("(select (select %s %s) %s)", en.e.heap(en.st, hk, mapCellSorts[hk]), m.term, k.term)), typ: boolT}
	case "typeis":
		// typeis(x, T): dynamic type of interface value x is T
		x := en.eval(v.Args[0])
		t := en.typeArg(v.Args[1])
		return tval{term: fmt.Sprintf("(= (i_tag %s) %d)", x.term, en.e.V.ST.typeID(t)), typ: boolT}
	case "be", "bytesBE":
		// be(s, n): the n bytes of slice s as a big-endian BV(8n), n a literal <= 64
		s := en.eval(v.Args[0])
		n := en.eval(v.Args[1])
		if n.lit == nil {
			en.fail("be(s, n): n must be a literal")
		}
		k := int(n.lit.v.Int64())
		if en.e.sortOf(s.typ).kind == skStr {
			var bs []string
			for i := 0; i < k; i++ {
				bs = append(bs, app("strbyte", s.term, bvLit(64, uint64(i))))
			}
			term := bs[0]
			if k > 1 {
				term = "(concat " + strings.Join(bs, " ") + ")"
			}
			return tval{term: term, typ: types.NewArray(types.Typ[types.Uint8], int64(k))}
		}
		sl, ok := s.typ.Underlying().(*types.Slice)
		if !ok {
			en.fail("be() of %s", s.typ)
		}
		var bs []string
		for i := 0; i < k; i++ {
			bs = append(bs, en.e.loadValue(en.st, idxAddr(app("s_base", s.term), bvadd(app("s_off", s.term), bvLit(64, uint64(i)))), sl.Elem()))
		}
		term := bs[0]
		if k > 1 {
			term = "(concat " + strings.Join(bs, " ") + ")"
		}
		return tval{term: term, typ: types.NewArray(types.Typ[types.Uint8], int64(k))}
	case "le":
		s := en.eval(v.Args[0])
		n := en.eval(v.Args[1])
		k := int(n.lit.v.Int64())
		if en.e.sortOf(s.typ).kind == skStr {
			var bs []string
			for i := k - 1; i >= 0; i-- {
				bs = append(bs, app("strbyte", s.term, bvLit(64, uint64(i))))
			}
			term := bs[0]
			if k > 1 {
				term = "(concat " + strings.Join(bs, " ") + ")"
			}
			return tval{term: term, typ: types.NewArray(types.Typ[types.Uint8], int64(k))}
		}
		sl := s.typ.Underlying().(*types.Slice)
		var bs []string
		for i := k - 1; i >= 0; i-- {
			bs = append(bs, en.e.loadValue(en.st, idxAddr(app("s_base", s.term), bvadd(app("s_off", s.term), bvLit(64, uint64(i)))), sl.Elem()))
		}
		term := bs[0]
		if k > 1 {
			term = "(concat " + strings.Join(bs, " ") + ")"
		}
		return tval{term: term, typ: types.NewArray(types.Typ[types.Uint8], int64(k))}
	case "cat":
		// cat(a, b, ...): concatenation of bit-vector values, most significant first
		var ts []string
		w := 0
		for _, a := range v.Args {
			x := en.eval(a)
			if x.lit != nil {
				en.fail("cat: literal operands need a conversion")
			}
			sx := en.e.sortOf(x.typ)
			if sx.kind != skBV {
				en.fail("cat of %s", x.typ)
			}
			w += sx.width
			ts = append(ts, x.term)
		}
		if w%8 != 0 {
			en.fail("cat: total width %d is not a multiple of 8", w)
		}
		return tval{term: "(concat " + strings.Join(ts, " ") + ")", typ: types.NewArray(types.Typ[types.Uint8], int64(w/8))}
	case "ult", "ule", "ugt", "uge":
		a, b := en.unify(en.eval(v.Args[0]), en.eval(v.Args[1]))
		return tval{term: app("bv"+v.Fun, a.term, b.term), typ: boolT}
	case "zext":
		// zext(x, T)
		x := en.coerceInt(en.eval(v.Args[0]))
		t := en.lookupType(exprName(v.Args[1]))
		fs, ts := en.e.sortOf(x.typ), en.e.sortOf(t)
		return tval{term: convInt(x.term, fs.width, ts.width, false), typ: t}
	}
	// conversion?
	if t := en.lookupType(v.Fun); t != nil && len(v.Args) == 1 {
		x := en.eval(v.Args[0])
		if x.lit != nil {
			return en.coerceTo(x, t)
		}
		fs, ts := en.e.sortOf(x.typ), en.e.sortOf(t)
		if fs.kind == skBV && ts.kind == skBV {
			return tval{term: convInt(x.term, fs.width, ts.width, isSigned(x.typ)), typ: t}
		}
		if fs.name == ts.name {
			return tval{term: x.term, typ: t}
		}
		if fs.kind == skSlice && ts.kind == skStr {
			// string(b): the contents of the byte slice in the current memory, as a value
			if sl, ok := x.typ.Underlying().(*types.Slice); ok {
				if el, ok := sl.Elem().Underlying().(*types.Basic); ok && el.Kind() == types.Uint8 {
					return tval{term: en.e.strOf(en.st, x.term), typ: t}
				}
			}
		}
		en.fail("conversion %s -> %s", x.typ, t)
	}
	// spec function
	if sf, ok := en.e.V.C.Specs[v.Fun]; ok {
		return en.specCall(sf, v)
	}
	en.fail("unknown function %q", v.Fun)
	return tval{}
}

// typeArg evaluates an expression used as a type name (T, *T, pkg.T, *pkg.T, []T).
func (en *env) typeArg(x Expr) types.Type {
	name := ""
	switch v := x.(type) {
	case *EUnary:
		if v.Op == "*" {
			return types.NewPointer(en.typeArg(v.X))
		}
	default:
		name = exprName(x)
	}
	t := en.lookupType(name)
	if t == nil {
		en.fail("unknown type %q", name)
	}
	return t
}

func (en *env) specCall(sf *SpecFunc, v *ECall) tval {
	if len(v.Args) != len(sf.Params) {
		en.fail("%s: %d arguments, want %d", sf.Name, len(v.Args), len(sf.Params))
	}
	rt := en.lookupType(sf.Result)
	if rt == nil {
		en.fail("%s: unknown result type %q", sf.Name, sf.Result)
	}
	var args []tval
	for i, a := range v.Args {
		pt := en.lookupType(sf.Params[i].Type)
		if pt == nil {
			en.fail("%s: unknown parameter type %q", sf.Name, sf.Params[i].Type)
		}
		x := en.coerceTo(en.eval(a), pt)
		if en.e.sortOf(x.typ).name != en.e.sortOf(pt).name {
			en.fail("%s: argument %d has type %s, want %s", sf.Name, i+1, x.typ, pt)
		}
		x.typ = pt
		args = append(args, x)
	}
	if sf.Body == nil || sf.Rec {
		// uninterpreted or recursive: SMT function symbol. Heap-reading recursive specs
		// are not supported (they take values only).
		en.e.V.declareSpecFunc(en, sf)
		var ts []string
		for _, a := range args {
			if en.e.sortOf(a.typ).kind == skSlice && sf.Body == nil {
				// an uninterpreted function of a slice is a function of the slice's window
				// (base, offset, length): capacity is not part of what it denotes, so that
				// s === t (same window) implies f(s) == f(t)
				t := a.term
				ts = append(ts, foldTerm(fmt.Sprintf("(mkslice (s_base %s) (s_off %s) (s_len %s) (s_len %s))", t, t, t, t)))
				continue
			}
			ts = append(ts, a.term)
		}
		if len(ts) == 0 {
			return tval{term: "sf_" + sf.Name, typ: rt}
		}
		return tval{term: app("sf_"+sf.Name, ts...), typ: rt}
	}
	if en.depth > 40 {
		en.fail("spec function expansion too deep (recursive macro?)")
	}
	// macro expansion in the current state
	sub := &env{e: en.e, st: en.st, old: en.old, names: map[string]tval{}, pkg: en.pkg, depth: en.depth + 1, noDef: en.noDef}
	for i, p := range sf.Params {
		a := args[i]
		if len(a.term) > 60 && !en.noDef {
			a.term = en.e.define("sa_"+p.Name, en.e.sortOf(a.typ), a.term)
		}
		sub.names[p.Name] = a
	}
	r := sub.coerceTo(sub.eval(sf.Body), rt)
	r.typ = rt
	// name large non-boolean expansions by an opaque constant (a definition, not an
	// assumption): keeps arithmetic over spec values small for the solvers
	if !en.noDef && len(r.term) > 200 && en.e.sortOf(rt).kind == skBV {
		key := r.term
		if c, ok := en.e.specConsts[key]; ok {
			r.term = c
		} else {
			c := en.e.declare("sv_"+sf.Name, en.e.sortOf(rt))
			en.e.emit(fmt.Sprintf("(assert (= %s %s))", c, r.term))
			en.e.specConsts[key] = c
			r.term = c
		}
	}
	return r
}

// declareSpecFunc emits the declaration (and, for recursive ones, the definition) of a
// spec function symbol once per run.
func (V *Verifier) declareSpecFunc(en *env, sf *SpecFunc) {
	if V.ufDecl[sf.Name] {
		return
	}
	V.ufDecl[sf.Name] = true
	var ps, pn []string
	for _, p := range sf.Params {
		t := en.lookupType(p.Type)
		ps = append(ps, V.ST.sortOf(t).name)
		pn = append(pn, fmt.Sprintf("(%s %s)", "a_"+p.Name, V.ST.sortOf(t).name))
	}
	rs := V.ST.sortOf(en.lookupType(sf.Result)).name
	if sf.Body == nil {
		V.extraDecl = append(V.extraDecl, fmt.Sprintf("(declare-fun sf_%s (%s) %s)", sf.Name, strings.Join(ps, " "), rs))
		return
	}
	// recursive definition over values
	sub := &env{e: en.e, st: en.st, old: en.old, names: map[string]tval{}, pkg: en.pkg, noDef: true}
	for _, p := range sf.Params {
		sub.names[p.Name] = tval{term: "a_" + p.Name, typ: en.lookupType(p.Type)}
	}
	body := sub.coerceTo(sub.eval(sf.Body), en.lookupType(sf.Result))
	V.extraDecl = append(V.extraDecl, fmt.Sprintf("(define-fun-rec sf_%s (%s) %s %s)", sf.Name, strings.Join(pn, " "), rs, body.term))
}

// ---------------------------------------------------------------------------
// source-level variable resolution (DESIGN A.3)
// ---------------------------------------------------------------------------

func (e *fnEnc) resolveLoopPhi(name string, li *loopInfo) (tval, bool) {
	// the loop itself first, then the enclosing loops from the innermost outwards
	cands := []*loopInfo{li}
	var outer []*loopInfo
	for _, l := range e.loopList {
		if l != li && l.blocks[li.head] {
			outer = append(outer, l)
		}
	}
	sort.Slice(outer, func(i, j int) bool { return len(outer[i].blocks) < len(outer[j].blocks) })
	cands = append(cands, outer...)
	for _, l := range cands {
		if true {
			for _, ins := range l.head.Instrs {
				phi, ok := ins.(*ssa.Phi)
				if !ok {
					break
				}
				if phi.Comment == name {
					if t, ok := e.vals[phi]; ok {
						return tval{term: t, typ: phi.Type()}, true
					}
				}
			}
		}
	}
	return tval{}, false
}

func (e *fnEnc) resolveSourceVar(name string, li *loopInfo, st *state) (tval, bool) {
	// 1. header phis of the loop (and enclosing loops) whose comment is the name
	if li != nil {
		if v, ok := e.resolveLoopPhi(name, li); ok {
			return v, true
		}
		for _, l := range e.loopList {
			if l == li {
				for _, ins := range l.head.Instrs {
					phi, ok := ins.(*ssa.Phi)
					if !ok {
						break
					}
					if phi.Comment == name || (name == "idx" && phi.Comment == "rangeindex" && l == li) {
						if t, ok := e.vals[phi]; ok {
							return tval{term: t, typ: phi.Type()}, true
						}
					}
				}
			}
		}
	}
	// 2. allocs (named results, address-taken locals): current content of the cell
	for _, b := range e.fn.Blocks {
		for _, ins := range b.Instrs {
			if a, ok := ins.(*ssa.Alloc); ok && a.Comment == name {
				et := a.Type().Underlying().(*types.Pointer).Elem()
				if lv, isLocal := st.locals[a]; isLocal {
					return tval{term: lv, typ: et}, true
				}
				if cv, isConst := e.constCell(a); isConst {
					return tval{term: cv, typ: et}, true
				}
				if t, ok := e.vals[a]; ok && t != "LOCAL-CELL" {
					return tval{term: e.loadValue(st, t, et), typ: et}, true
				}
			}
		}
	}
	// 3. the value of the source variable at the target point: among the values bound to a
	// variable of that name (debug refs, and phis named after it) whose definition
	// dominates the target block, the most recent one (deepest in the dominator tree).
	var target *ssa.BasicBlock
	if li != nil {
		target = li.head
	} else {
		target = e.curBlock
	}
	cands := map[ssa.Value]bool{}
	for _, b := range e.fn.Blocks {
		for _, ins := range b.Instrs {
			switch d := ins.(type) {
			case *ssa.DebugRef:
				if d.IsAddr {
					continue
				}
				if obj := d.Object(); obj != nil && obj.Name() == name {
					if _, ok := obj.(*types.Var); ok {
						cands[d.X] = true
					}
				}
			case *ssa.Phi:
				if d.Comment == name {
					cands[d] = true
				}
			}
		}
	}
	var best ssa.Value
	bestDepth := -1
	ambiguous := false
	for v := range cands {
		if _, defined := e.vals[v]; !defined && !isConstLike(v) {
			continue
		}
		depth := 0
		if ins, ok := v.(ssa.Instruction); ok && ins.Block() != nil {
			if target != nil && !(ins.Block() == target || ins.Block().Dominates(target)) {
				continue
			}
			for b := ins.Block(); b != nil; b = b.Idom() {
				depth++
			}
			// later in the same block wins
			for i, x := range ins.Block().Instrs {
				if x == ins {
					depth = depth*10000 + i
				}
			}
		}
		if depth > bestDepth {
			best, bestDepth, ambiguous = v, depth, false
		} else if depth == bestDepth && v != best {
			ambiguous = true
		}
	}
	if best != nil && !ambiguous {
		return tval{term: e.val(best), typ: best.Type()}, true
	}
	return tval{}, false
}

// singleDefinition: the only SSA value bound to a source variable of that name (debug info),
// and its block.
func (e *fnEnc) singleDefinition(name string) (ssa.Value, *ssa.BasicBlock, bool) {
	var val ssa.Value
	var blk *ssa.BasicBlock
	for _, b := range e.fn.Blocks {
		for _, ins := range b.Instrs {
			d, ok := ins.(*ssa.DebugRef)
			if !ok || d.IsAddr {
				continue
			}
			obj := d.Object()
			if obj == nil || obj.Name() != name {
				continue
			}
			if _, isVar := obj.(*types.Var); !isVar {
				continue
			}
			if val != nil && val != d.X {
				return nil, nil, false
			}
			val = d.X
			if vi, ok := d.X.(ssa.Instruction); ok {
				blk = vi.Block()
			} else {
				return nil, nil, false
			}
		}
	}
	if val == nil || blk == nil {
		return nil, nil, false
	}
	if e.inAnyLoop(blk) {
		return nil, nil, false
	}
	return val, blk, true
}

func (e *fnEnc) inAnyLoop(b *ssa.BasicBlock) bool {
	for _, l := range e.loopList {
		if l.blocks[b] {
			return true
		}
	}
	return false
}

// sourceVarType: the type of a local source variable of the function, if it has one of that name.
func (e *fnEnc) sourceVarType(name string) types.Type {
	for _, b := range e.fn.Blocks {
		for _, ins := range b.Instrs {
			if d, ok := ins.(*ssa.DebugRef); ok {
				if obj := d.Object(); obj != nil && obj.Name() == name {
					if v, ok := obj.(*types.Var); ok {
						return v.Type()
					}
				}
			}
		}
	}
	return nil
}

func isConstLike(v ssa.Value) bool {
	switch v.(type) {
	case *ssa.Const, *ssa.Global, *ssa.Function:
		return true
	}
	return false
}
