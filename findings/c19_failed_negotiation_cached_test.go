package portalwire

// Replay of known finding C19 (obligation getOrStoreHighestVersion#ensures:[failure-not-cached]):
// run with   /verif/findings/run.sh c19_failed_negotiation_cached_test.go portalwire TestVerifC19FailedNegotiationIsCached
// The test PASSES when the defect is present (it demonstrates it) and FAILS once it is fixed.

import (
	"testing"

	"github.com/ethereum/go-ethereum/p2p/enode"
)

func TestVerifC19FailedNegotiationIsCached(t *testing.T) {
	a, err := setupLocalPortalNode(":3421", nil, DefaultUtpConnSize, 0, 1)
	if err != nil {
		t.Fatal(err)
	}
	b, err := setupLocalPortalNode(":3422", []*enode.Node{a.localNode.Node()}, DefaultUtpConnSize, 3)
	if err != nil {
		t.Fatal(err)
	}
	peer := b.localNode.Node()
	v1, err1 := a.getOrStoreHighestVersion(peer)
	v2, err2 := a.getOrStoreHighestVersion(peer)
	t.Logf("first call: (%d, %v)  second call: (%d, %v)", v1, err1, v2, err2)
	if err1 == nil {
		t.Fatalf("precondition of the replay not met: versions {0,1} and {3} have no common element but the first call returned no error")
	}
	if err2 != nil {
		t.Fatalf("defect not present: the second call also fails (%v)", err2)
	}
	// err2 == nil: the failed negotiation was cached as version 0
}
