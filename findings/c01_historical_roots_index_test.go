package validation

// Replay of C01/C03 obligation (HeaderValidator).validateMergeToCapellaHeader
// #bounds:h.historicalRootsAcc.HistoricalRoots[historicalRootIndex]: a merge-to-Capella proof
// whose (peer-chosen) slot lies beyond the embedded historical-roots accumulator, with an
// execution-block branch that is consistent with the (peer-chosen) beacon block root, makes
// the validator index the accumulator out of range.
//   /verif/findings/run.sh c01_historical_roots_index_test.go validation TestVerifC01HistoricalRootsIndex
// FAILS (panics) while the defect is present, PASSES once an error is returned.

import (
	"crypto/sha256"
	"testing"

	"github.com/zen-eth/shisui/types/history"
)

func TestVerifC01HistoricalRootsIndex(t *testing.T) {
	h := NewHeaderValidatorWithHistorySummaries(nil)
	headerHash := make([]byte, 32)
	headerHash[0] = 7
	proof := &history.BlockProofHistoricalRoots{Slot: 8192 * 100000}
	value := [32]byte{}
	copy(value[:], headerHash)
	var gIndex uint64 = 3228
	for i := 0; i < 11; i++ {
		sib := make([]byte, 32)
		sib[0] = byte(i + 1)
		proof.ExecutionBlockProof = append(proof.ExecutionBlockProof, sib)
		if (gIndex>>uint(i))&1 == 1 {
			value = sha256.Sum256(append(append([]byte{}, sib...), value[:]...))
		} else {
			value = sha256.Sum256(append(append([]byte{}, value[:]...), sib...))
		}
	}
	proof.BeaconBlockRoot = value[:]
	for i := 0; i < 14; i++ {
		proof.BeaconBlockProof = append(proof.BeaconBlockProof, make([]byte, 32))
	}
	defer func() {
		if r := recover(); r != nil {
			t.Fatalf("validateMergeToCapellaHeader panicked: %v", r)
		}
	}()
	if err := h.validateMergeToCapellaHeader(headerHash, proof); err == nil {
		t.Fatalf("out-of-range slot accepted")
	}
}
