package history

// Replay of C01 obligations isEphemeralOfferType#bounds:contentKey[0] and
// (*HistoryValidator).ValidateContent#bounds:contentKey[0]: a FINDCONTENT / OFFER with an empty
// content key reaches the history storage adapter and validator, which index contentKey[0].
//   /verif/findings/run.sh c01_empty_key_history_test.go history TestVerifC01EmptyContentKeyHistory
// FAILS (panics) while the defect is present, PASSES once errors / not-found are returned.

import "testing"

func TestVerifC01EmptyContentKeyHistory(t *testing.T) {
	for _, key := range [][]byte{{}, nil} {
		func() {
			defer func() {
				if r := recover(); r != nil {
					t.Errorf("isEphemeralOfferType(%v) panicked: %v", key, r)
				}
			}()
			if isEphemeralOfferType(key) {
				t.Errorf("empty key classified as ephemeral")
			}
		}()
		func() {
			defer func() {
				if r := recover(); r != nil {
					t.Errorf("ValidateContent(%v) panicked: %v", key, r)
				}
			}()
			v := &HistoryValidator{}
			if err := v.ValidateContent(key, []byte{1, 2, 3}); err == nil {
				t.Errorf("empty key accepted")
			}
		}()
	}
}
