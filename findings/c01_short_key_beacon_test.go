package beacon

// Replay of C01 obligations in beacon: (*Storage).Get/Put#bounds:contentKey[0],
// reverseCompare#bounds:b[i] (historical-summaries key shorter / longer than 8 bytes) and
// (*BeaconValidator).ValidateContent#bounds:contentKey[0].
//   /verif/findings/run.sh c01_short_key_beacon_test.go beacon TestVerifC01ShortKeysBeacon
// FAILS (panics) while the defects are present, PASSES once errors are returned.

import (
	"testing"

	"github.com/zen-eth/shisui/storage"
	"github.com/zen-eth/shisui/storage/pebble"
)

func TestVerifC01ShortKeysBeacon(t *testing.T) {
	db, err := pebble.NewDB(t.TempDir(), 16, 16, "beacon")
	if err != nil {
		t.Fatal(err)
	}
	defer db.Close()
	st, err := NewBeaconStorage(storage.PortalStorageConfig{StorageCapacityMB: 10, NetworkName: "beacon"}, db)
	if err != nil {
		t.Fatal(err)
	}
	try := func(name string, f func()) {
		defer func() {
			if r := recover(); r != nil {
				t.Errorf("%s panicked: %v", name, r)
			}
		}()
		f()
	}
	id := make([]byte, 32)
	try("Get(empty key)", func() { _, _ = st.Get([]byte{}, id) })
	try("Put(empty key)", func() { _ = st.Put([]byte{}, id, []byte{1}) })
	hs := byte(HistoricalSummaries)
	// a well-formed historical-summaries record first, so that the compare paths are reached
	try("Put(summaries, 8-byte epoch)", func() { _ = st.Put([]byte{hs, 1, 0, 0, 0, 0, 0, 0, 0}, id, []byte{9, 9, 9}) })
	try("Get(summaries, 1-byte epoch)", func() { _, _ = st.Get([]byte{hs, 1}, id) })
	try("Put(summaries, 12-byte epoch)", func() { _ = st.Put([]byte{hs, 1, 2, 3, 4, 5, 6, 7, 8, 9, 10, 11, 12}, id, []byte{9}) })
	try("ValidateContent(empty key)", func() {
		v := &BeaconValidator{}
		if err := v.ValidateContent([]byte{}, []byte{1}); err == nil {
			t.Errorf("empty key accepted")
		}
	})
}
