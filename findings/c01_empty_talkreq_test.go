package portalwire

// Replay of C01 obligation (*PortalProtocol).handleTalkRequest#bounds:msg[0]: an empty TALKREQ
// payload on a portal sub-protocol makes the handler index msg[0] and panic (the discv5 talk
// goroutine has no recover, so the process dies).
//   /verif/findings/run.sh c01_empty_talkreq_test.go portalwire TestVerifC01EmptyTalkRequest
// FAILS (panics) while the defect is present, PASSES once the handler returns an empty reply.

import (
	"net"
	"testing"

	"github.com/ethereum/go-ethereum/p2p/enode"
)

func TestVerifC01EmptyTalkRequest(t *testing.T) {
	a, err := setupLocalPortalNode(":3431", nil, DefaultUtpConnSize)
	if err != nil {
		t.Fatal(err)
	}
	if err := a.Start(); err != nil {
		t.Fatal(err)
	}
	defer stopNode(a)
	b, err := setupLocalPortalNode(":3432", []*enode.Node{a.localNode.Node()}, DefaultUtpConnSize)
	if err != nil {
		t.Fatal(err)
	}
	peer := b.localNode.Node()
	addr := &net.UDPAddr{IP: net.IPv4(127, 0, 0, 1), Port: 3432}
	defer func() {
		if r := recover(); r != nil {
			t.Fatalf("handleTalkRequest panicked on an empty payload: %v", r)
		}
	}()
	for _, msg := range [][]byte{{}, nil} {
		if resp := a.handleTalkRequest(peer, addr, msg); len(resp) != 0 {
			t.Fatalf("expected an empty reply, got %x", resp)
		}
	}
}
