package portalwire

// Replay of C01 obligation (*PortalProtocol).processContent#bounds:resp[1]: a one-byte CONTENT
// response (just the message code) makes the asking side index resp[1] and panic.
//   /verif/findings/run.sh c01_one_byte_content_resp_test.go portalwire TestVerifC01OneByteContentResponse
// FAILS (panics) while the defect is present, PASSES once an error is returned.

import (
	"testing"

	"github.com/ethereum/go-ethereum/p2p/enode"
)

func TestVerifC01OneByteContentResponse(t *testing.T) {
	a, err := setupLocalPortalNode(":3441", nil, DefaultUtpConnSize)
	if err != nil {
		t.Fatal(err)
	}
	b, err := setupLocalPortalNode(":3442", []*enode.Node{a.localNode.Node()}, DefaultUtpConnSize)
	if err != nil {
		t.Fatal(err)
	}
	defer func() {
		if r := recover(); r != nil {
			t.Fatalf("processContent panicked on a one-byte CONTENT response: %v", r)
		}
	}()
	if _, _, err := a.processContent(b.localNode.Node(), []byte{CONTENT}); err == nil {
		t.Fatalf("expected an error for a truncated CONTENT response")
	}
}
