package portalwire

// Replay of C16 obligations (*PortalProtocol).offer#ensures:[slot-returned]@2/@3: when the OFFER
// talk request fails (silent / unreachable peer) or the offer cannot be encoded, offer() returns
// without releasing the outbound transfer slot that gossip took for it.
//   /verif/findings/run.sh c16_offer_leaks_slot_test.go portalwire TestVerifC16OfferReturnsSlot
// FAILS while the defect is present (the only slot stays taken), PASSES once it is released.

import (
	"testing"

	"github.com/ethereum/go-ethereum/p2p/enode"
)

func TestVerifC16OfferReturnsSlot(t *testing.T) {
	a, err := setupLocalPortalNode(":3451", nil, 1) // one transfer slot
	if err != nil {
		t.Fatal(err)
	}
	if err := a.Start(); err != nil {
		t.Fatal(err)
	}
	defer stopNode(a)
	// a peer that is never started: the talk request gets no answer
	silent, err := setupLocalPortalNode(":3452", []*enode.Node{a.localNode.Node()}, 1)
	if err != nil {
		t.Fatal(err)
	}
	permit, ok := a.Utp.GetOutboundPermit()
	if !ok {
		t.Fatal("no slot available at the start")
	}
	// 65 keys: the OFFER cannot be encoded (limit 64), so offer() fails before any network I/O;
	// the same early return is taken when the talk request itself fails
	var contents []*ContentEntry
	for i := 0; i < 65; i++ {
		contents = append(contents, &ContentEntry{ContentKey: []byte{byte(i)}, Content: []byte{2}})
	}
	req := &OfferRequest{Kind: TransientOfferRequestKind, Request: &TransientOfferRequest{Contents: contents}}
	if _, ok2 := a.Utp.GetOutboundPermit(); ok2 {
		t.Fatal("test setup: the limit of one slot is not in effect")
	}
	_, err = a.offer(silent.localNode.Node(), req, permit)
	t.Logf("offer returned: %v", err)
	if err == nil {
		t.Skip("the offer unexpectedly succeeded")
	}
	p2, ok := a.Utp.GetOutboundPermit()
	if !ok {
		t.Fatalf("the outbound slot was not returned after a failed offer")
	}
	p2.Release()
}
