package state

// Replay of C01 obligations in state: (*Storage).Put / (*StateValidator).ValidateContent
// #bounds:contentKey[0] (empty content key) and trie.TraverseTrieNode#bounds:v.Key[length-1] /
// #bounds:path[index] (extension node with an empty key; path shorter than the extension key),
// reached from validateTrieProof with peer-supplied proof nodes.
//   /verif/findings/run.sh c01_state_test.go state TestVerifC01State
// FAILS (panics) while the defects are present, PASSES once errors are returned.

import (
	"testing"

	"github.com/ethereum/go-ethereum/rlp"
	"github.com/zen-eth/shisui/state/trie"
)

func TestVerifC01State(t *testing.T) {
	try := func(name string, f func()) {
		defer func() {
			if r := recover(); r != nil {
				t.Errorf("%s panicked: %v", name, r)
			}
		}()
		f()
	}
	try("Storage.Put(empty key)", func() {
		s := &Storage{}
		if err := s.Put([]byte{}, make([]byte, 32), []byte{1}); err == nil {
			t.Errorf("empty key accepted")
		}
	})
	try("ValidateContent(empty key)", func() {
		v := &StateValidator{}
		if err := v.ValidateContent([]byte{}, []byte{1}); err == nil {
			t.Errorf("empty key accepted")
		}
	})
	child := make([]byte, 32)
	// extension node whose compact key 0x00 decodes to the empty nibble string
	emptyExt, _ := rlp.EncodeToBytes([]interface{}{[]byte{0x00}, child})
	try("TraverseTrieNode(extension with empty key)", func() {
		n, err := trie.DecodeTrieNode(nil, emptyExt)
		if err != nil {
			t.Skipf("node rejected by the decoder: %v", err)
		}
		if _, _, err := trie.TraverseTrieNode(n, []byte{1, 2}); err == nil {
			t.Errorf("extension node with an empty key accepted")
		}
	})
	// extension node with the 4-nibble key 1,2,3,4 walked with the 2-nibble path 1,2
	longExt, _ := rlp.EncodeToBytes([]interface{}{[]byte{0x00, 0x12, 0x34}, child})
	try("TraverseTrieNode(path shorter than extension key)", func() {
		n, err := trie.DecodeTrieNode(nil, longExt)
		if err != nil {
			t.Fatalf("decode: %v", err)
		}
		if _, _, err := trie.TraverseTrieNode(n, []byte{1, 2}); err == nil {
			t.Errorf("path shorter than the extension key accepted")
		}
	})
}
