package pebble

import (
	"bytes"
	"crypto/sha256"
	"encoding/binary"
	"testing"

	"github.com/ethereum/go-ethereum/p2p/enode"
	"github.com/holiman/uint256"
	"github.com/zen-eth/shisui/storage"
)

// C04: the bytes a Get handed back must stay what was put, whatever the store is asked to do
// afterwards. pebble's DB.Get returns a slice that is only valid until the returned Closer is
// closed; ContentStorage.Get closes it and returns the slice.
func TestC04GetResultStaysIntact(t *testing.T) {
	db, err := NewDB(t.TempDir(), 16, 16, "c04")
	if err != nil {
		t.Fatal(err)
	}
	defer db.Close()
	st, err := NewStorage(storage.PortalStorageConfig{StorageCapacityMB: 4000, NodeId: enode.ID{}, NetworkName: "c04"}, db)
	if err != nil {
		t.Fatal(err)
	}
	cs := st.(*ContentStorage)
	_ = uint256.NewInt
	const n = 4000
	const size = 24 * 1024
	val := func(i int) []byte {
		b := make([]byte, size)
		for k := 0; k < size; k += 8 {
			binary.BigEndian.PutUint64(b[k:], uint64(i)<<32|uint64(k))
		}
		return b
	}
	id := func(i int) []byte {
		h := sha256.Sum256([]byte{byte(i), byte(i >> 8), byte(i >> 16)})
		return h[:]
	}
	for i := 0; i < n; i++ {
		if err := cs.Put(nil, id(i), val(i)); err != nil {
			t.Fatal(err)
		}
	}
	if err := db.Flush(); err != nil {
		t.Fatal(err)
	}
	// hold the results of 64 Gets, then keep the store busy with further reads, then look again
	type held struct {
		i   int
		got []byte
	}
	var hs []held
	for j := 0; j < 64; j++ {
		a := j * 61 % n
		got, err := cs.Get(nil, id(a))
		if err != nil {
			t.Fatal(err)
		}
		if !bytes.Equal(got, val(a)) {
			t.Fatalf("immediate mismatch for item %d", a)
		}
		hs = append(hs, held{a, got})
	}
	for pass := 0; pass < 3; pass++ {
		for i := 0; i < n; i++ {
			if _, err := cs.Get(nil, id(i)); err != nil {
				t.Fatal(err)
			}
		}
	}
	changed := 0
	for _, h := range hs {
		if !bytes.Equal(h.got, val(h.i)) {
			changed++
		}
	}
	if changed > 0 {
		t.Errorf("the bytes handed back by Get changed after further reads for %d of %d held results", changed, len(hs))
	}
}
