package portalwire

// Replay of C09 obligation (*PortalProtocol).handleOffer#at-return:[v0-accepted-only-with-a-slot]:
// when no inbound transfer slot is available, a version-1 reply marks every key RateLimited, but
// a version-0 reply kept the accept bits that filterContentKeysV0 had set and announced
// connection id 0: the offering peer is told "accepted" for keys nobody is waiting to receive.
//   /verif/findings/run.sh c09_v0_rate_limited_accepts_test.go portalwire TestVerifC09V0RateLimitedAcceptsNothing
// FAILS while the defect is present, PASSES once the version-0 reply declines every key.

import (
	"net"
	"testing"

	"github.com/ethereum/go-ethereum/p2p/enode"
)

func TestVerifC09V0RateLimitedAcceptsNothing(t *testing.T) {
	a, err := setupLocalPortalNode(":3461", nil, 1) // one transfer slot
	if err != nil {
		t.Fatal(err)
	}
	if err := a.Start(); err != nil {
		t.Fatal(err)
	}
	defer stopNode(a)
	peer, err := setupLocalPortalNode(":3462", []*enode.Node{a.localNode.Node()}, 1)
	if err != nil {
		t.Fatal(err)
	}
	peerNode := peer.localNode.Node()
	// the peer speaks version 0 only
	a.versionsCache.Set(peerNode, 0, 0)
	// take the only inbound slot
	held, ok := a.Utp.GetInboundPermit()
	if !ok {
		t.Fatal("no inbound slot available at the start")
	}
	defer held.Release()
	if extra, ok2 := a.Utp.GetInboundPermit(); ok2 {
		extra.Release()
		t.Skip("test setup: the limit of one inbound slot is not in effect")
	}
	offer := &Offer{ContentKeys: [][]byte{[]byte("verif_key_1"), []byte("verif_key_2")}}
	resp, err := a.handleOffer(peerNode, &net.UDPAddr{IP: net.IPv4(127, 0, 0, 1), Port: 3462}, offer)
	if err != nil {
		t.Fatal(err)
	}
	if len(resp) < 1 || resp[0] != ACCEPT {
		t.Fatalf("not an ACCEPT reply: %x", resp)
	}
	acc := &Accept{}
	if err := acc.UnmarshalSSZ(resp[1:]); err != nil {
		t.Fatal(err)
	}
	if acc.GetKeyLength() != 2 {
		t.Fatalf("verdicts for %d keys, offered 2", acc.GetKeyLength())
	}
	if idx := acc.GetAcceptIndices(); len(idx) != 0 {
		t.Fatalf("no transfer slot was obtained, yet the version-0 reply accepts keys %v (connection id %x)", idx, acc.GetConnectionId())
	}
}
