package portalwire

// Replay of C16 obligation (*PortalProtocol).GossipAndReturnPeers#iteration-ensures:loop3
// [slot-returned-or-queued]: when the offer queue is full, gossip drops the offer request but
// keeps the outbound transfer slot it had just taken for it.
//   /verif/findings/run.sh c16_gossip_drop_leaks_slot_test.go portalwire TestVerifC16GossipDropReturnsSlot
// FAILS while the defect is present (the only slot stays taken), PASSES once it is released.

import (
	"testing"

	"github.com/ethereum/go-ethereum/p2p/enode"
)

func TestVerifC16GossipDropReturnsSlot(t *testing.T) {
	a, err := setupLocalPortalNode(":3461", nil, 1) // one transfer slot
	if err != nil {
		t.Fatal(err)
	}
	if err := a.Start(); err != nil {
		t.Fatal(err)
	}
	defer stopNode(a)
	b, err := setupLocalPortalNode(":3462", []*enode.Node{a.localNode.Node()}, 1)
	if err != nil {
		t.Fatal(err)
	}
	a.AddEnr(b.localNode.Node()) // table entry with the maximum radius
	// a queue that accepts nothing stands in for a full queue (the workers keep waiting on the
	// original channel)
	a.offerQueue = make(chan *OfferRequestWithNode)
	peers, err := a.GossipAndReturnPeers(nil, [][]byte{{1, 2, 3}}, [][]byte{{4, 5, 6}})
	if err != nil || len(peers) != 1 {
		t.Fatalf("test setup: gossip selected %d peers (%v)", len(peers), err)
	}
	p2, ok := a.Utp.GetOutboundPermit()
	if !ok {
		t.Fatalf("the outbound slot taken for a dropped offer request was not returned")
	}
	p2.Release()
}
