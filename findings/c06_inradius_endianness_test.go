package pebble

// Replay of known finding C06 (obligation (*ContentStorage).inRadius#ensures:[rule]): distance is
// the XOR of node id and content id read as a BIG-endian 256-bit number, but inRadius (and the
// radius derivation in prune / NewStorage) decode the 32-byte key with the LITTLE-endian
// uint256.UnmarshalSSZ. With radius 2^248 (as a number), the content at big-endian distance 2
// is refused and the content at big-endian distance 2^249 is admitted.
//   /verif/findings/run.sh c06_inradius_endianness_test.go storage/pebble TestVerifC06InRadiusEndianness
// The test PASSES when the defect is present (it demonstrates it) and FAILS once it is fixed.

import (
	"testing"

	"github.com/holiman/uint256"
)

func TestVerifC06InRadiusEndianness(t *testing.T) {
	st := setupTestStorage(t).(*ContentStorage) // node id is all zeros: key == content id
	radius := new(uint256.Int).Lsh(uint256.NewInt(1), 248)
	st.radius.Store(radius)

	near := uint256.NewInt(2).Bytes32()                               // big-endian distance 2        (< radius)
	far := new(uint256.Int).Lsh(uint256.NewInt(1), 249).Bytes32()     // big-endian distance 2^249    (> radius)
	okNear, err1 := st.inRadius(near[:])
	okFar, err2 := st.inRadius(far[:])
	t.Logf("radius=2^248: inRadius(BE distance 2)=%v (%v), inRadius(BE distance 2^249)=%v (%v)", okNear, err1, okFar, err2)
	if okNear && !okFar {
		t.Fatalf("defect not present: the big-endian rule is applied")
	}
}
