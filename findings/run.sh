#!/bin/bash
# usage: findings/run.sh <test file in /verif/findings> <package dir under /repo> <TestName>
# Injects the test into the package through a go test overlay (nothing is written to /repo).
D="$(cd "$(dirname "$0")/.." && pwd)"
. "$D/env.sh"
R="${GOCV_REPO:-/repo}"
T=$(mktemp -d "${TMPDIR:-/tmp}/gocv.replay.XXXXXX")
printf '{"Replace":{"%s/%s/zz_verif_replay_test.go":"%s/findings/%s"}}' "$R" "$2" "$D" "$1" > "$T/ov.json"
(cd "$R" && go test -overlay "$T/ov.json" -vet=off -count=1 -timeout 120s -run "^$3\$" -v "./$2") ; rc=$?
rm -rf "$T"
exit $rc
