package history

// Replay of (a) C01 obligation validateBlockBody#nil:header.WithdrawalsHash: a Shanghai-encoded
// body (withdrawals present) offered under the key of a pre-Shanghai header makes the validator
// dereference the nil WithdrawalsHash; (b) C02 obligation validateBlockBody#ensures[withdrawals]:
// a legacy body (no withdrawals) is accepted for a header that commits to withdrawals.
//   /verif/findings/run.sh c01_c02_block_body_test.go history TestVerifBlockBodyWithdrawals
// FAILS while the defects are present, PASSES once both are rejected with an error.

import (
	"testing"

	"github.com/ethereum/go-ethereum/common"
	"github.com/ethereum/go-ethereum/core/types"
)

func TestVerifBlockBodyWithdrawals(t *testing.T) {
	pre := &types.Header{TxHash: types.EmptyTxsHash, UncleHash: types.EmptyUncleHash}
	shanghaiBody := &types.Body{Withdrawals: []*types.Withdrawal{}}
	func() {
		defer func() {
			if r := recover(); r != nil {
				t.Errorf("validateBlockBody panicked for a Shanghai body under a pre-Shanghai header: %v", r)
			}
		}()
		if err := validateBlockBody(shanghaiBody, pre); err == nil {
			t.Errorf("Shanghai body accepted for a pre-Shanghai header")
		}
	}()
	wh := common.HexToHash("0x1111111111111111111111111111111111111111111111111111111111111111")
	post := &types.Header{TxHash: types.EmptyTxsHash, UncleHash: types.EmptyUncleHash, WithdrawalsHash: &wh}
	legacyBody := &types.Body{}
	if err := validateBlockBody(legacyBody, post); err == nil {
		t.Errorf("legacy body (no withdrawals) accepted for a header that commits to withdrawals")
	}
}
