package validation

// Replay for property C02 (defect, fixed): ValidationOracle.GetBlockHeaderByHash returned whatever
// header the history network's portal_historyGetContent lookup produced for the key, without
// comparing its hash with the requested one. RecursiveFindContent hands back looked-up content
// unvalidated, so a peer that answers the FINDCONTENT for header key H with any other header made
// the body / receipts validators check roots against the WRONG header.
//
// The test serves a header A under every key through an in-process RPC server and asks the oracle
// for a different hash B: the oracle must not return header A.

import (
	"math/big"
	"testing"

	"github.com/ethereum/go-ethereum/common"
	"github.com/ethereum/go-ethereum/common/hexutil"
	"github.com/ethereum/go-ethereum/core/types"
	"github.com/ethereum/go-ethereum/rlp"
	"github.com/ethereum/go-ethereum/rpc"
	"github.com/zen-eth/shisui/portalwire"
	"github.com/zen-eth/shisui/types/history"
)

type verifFakeHistoryAPI struct{ content string }

func (f *verifFakeHistoryAPI) HistoryGetContent(contentKeyHex string) (*portalwire.ContentInfo, error) {
	return &portalwire.ContentInfo{Content: f.content, UtpTransfer: false}, nil
}

func TestVerifOracleReturnsHeaderWithOtherHash(t *testing.T) {
	headerA := &types.Header{Number: big.NewInt(1), Difficulty: big.NewInt(2), Extra: []byte("header A")}
	rlpA, err := rlp.EncodeToBytes(headerA)
	if err != nil {
		t.Fatal(err)
	}
	hwp := &history.BlockHeaderWithProof{Header: rlpA, Proof: []byte{}}
	enc, err := hwp.MarshalSSZ()
	if err != nil {
		t.Fatal(err)
	}
	server := rpc.NewServer()
	if err := server.RegisterName("portal", &verifFakeHistoryAPI{content: hexutil.Encode(enc)}); err != nil {
		t.Fatal(err)
	}
	defer server.Stop()
	client := rpc.DialInProc(server)
	defer client.Close()

	oracle := NewOracle(client)
	hashB := common.HexToHash("0x1111111111111111111111111111111111111111111111111111111111111111")
	got, err := oracle.GetBlockHeaderByHash(hashB.Bytes())
	if err == nil {
		t.Fatalf("asked for header %x, oracle returned without error the header with hash %x", hashB, got.Hash())
	}
	// and the right header is still returned
	got, err = oracle.GetBlockHeaderByHash(headerA.Hash().Bytes())
	if err != nil || got.Hash() != headerA.Hash() {
		t.Fatalf("matching header rejected: %v", err)
	}
}
