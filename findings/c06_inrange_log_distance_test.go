package portalwire

// Replay of C06 obligation inRange#ensures:[xor-rule]: the in-range test must be
// "XOR distance (big-endian 256-bit) < radius". On the defective code it compares the radius
// with the log2 distance, so radius 9 admits a content id at XOR distance 255.
//   /verif/findings/run.sh c06_inrange_log_distance_test.go portalwire TestVerifC06InRangeIsXorRule
// FAILS while the defect is present, PASSES once inRange applies the XOR rule.

import (
	"testing"

	"github.com/ethereum/go-ethereum/p2p/enode"
	"github.com/holiman/uint256"
)

func TestVerifC06InRangeIsXorRule(t *testing.T) {
	var node enode.ID
	cases := []struct {
		radius   *uint256.Int
		distance *uint256.Int // XOR distance of the content id from the all-zero node id
		want     bool
	}{
		{uint256.NewInt(9), uint256.NewInt(255), false},
		{uint256.NewInt(9), uint256.NewInt(8), true},
		{uint256.NewInt(9), uint256.NewInt(9), false},
		{new(uint256.Int).Lsh(uint256.NewInt(1), 255), new(uint256.Int).Add(new(uint256.Int).Lsh(uint256.NewInt(1), 255), uint256.NewInt(1)), false},
		{new(uint256.Int).Lsh(uint256.NewInt(1), 255), uint256.NewInt(300), true},
		{uint256.NewInt(300), uint256.NewInt(299), true},
	}
	for _, c := range cases {
		id := c.distance.Bytes32()
		if got := inRange(node, c.radius, id[:]); got != c.want {
			t.Errorf("inRange(radius=%s, xor distance=%s) = %v, want %v", c.radius.Hex(), c.distance.Hex(), got, c.want)
		}
	}
}
