#!/bin/bash
# Must-fail corpus: applies each selftest/mutants/<prop>__<name>.patch to a scratch copy of
# /repo (outside /repo and /verif), runs the property's check against the copy and expects
# a VIOLATION (exit 1). Patches named <prop>__benign_<name>.patch must NOT alarm (exit 0).
# usage: selftest/run.sh [pattern]
D="$(cd "$(dirname "$0")/.." && pwd)"
pat="${1:-}"
fail=0
for p in "$D"/selftest/mutants/*${pat}*.patch; do
  [ -e "$p" ] || continue
  b=$(basename "$p" .patch); prop=${b%%__*}
  S=$(mktemp -d "${TMPDIR:-/tmp}/gocv.mut.XXXXXX")
  rsync -a --exclude .git /repo/ "$S/repo/"
  if ! (cd "$S/repo" && patch -p1 -s < "$p"); then echo "SELFTEST $b: patch does not apply"; fail=1; rm -rf "$S"; continue; fi
  out=$(GOCV_REPO="$S/repo" GOCV_OUT="$S/o" "$D/check" "$prop" quick 2>&1); rc=$?
  case "$b" in
    *__benign_*) if [ $rc -eq 0 ]; then echo "SELFTEST $b: ok (no alarm)"; else echo "SELFTEST $b: FALSE ALARM"; echo "$out" | grep VIOLATION | head -3; fail=1; fi;;
    *) if [ $rc -eq 1 ] && echo "$out" | grep -q "^VIOLATION"; then echo "SELFTEST $b: ok (caught: $(echo "$out" | grep -m1 -o 'obligation=[^ ]*'))"; else echo "SELFTEST $b: MISSED (rc=$rc)"; echo "$out" | tail -2; fail=1; fi;;
  esac
  rm -rf "$S"
done
exit $fail
